"""Class-system programs with a reference model of docs/bloch_class_system.md (C08; reused by
C09, C10, C11, C12).

Every constructor, field initialiser, method and destructor echoes a tag, so the output is a
trace of the object model: base-first construction (super arguments evaluated in the derived
constructor, then the base chain, then the class's own field initialisers, then its body),
virtual dispatch to the most-derived override, super.m() relative to the class where it is
written, static overload choice by the documented cost order, per-class statics, one
specialisation per generic instantiation, derived-first destructors when the last reference
disappears.  Destructor chains of objects dying at the same scope exit are compared as a bag."""

PRIMS = ["int", "long", "float", "string", "bit", "boolean"]
LIT = {"int": "3", "long": "4L", "float": "1.5f", "string": "\"s\"", "bit": "1b", "boolean": "true"}


class Bag(list):
    """A set of line-chains whose relative order is unspecified."""


class Model:
    def __init__(self):
        self.classes = {}     # name -> dict(base, fields, ctors, methods, statics, dtor)
        self.order = []
        self.out = []
        self.statics = {}     # (cls, field) -> int
        self.box_made = {}

    def ancestors(self, c):
        out = []
        while c:
            out.append(c)
            c = self.classes[c]["base"]
        return out

    def distance(self, derived, base):
        a = self.ancestors(derived)
        return a.index(base) if base in a else None

    # ---- construction
    def construct(self, cname, sig, args, out):
        obj = dict(cls=cname, fields={}, alive=True)
        for a in self.ancestors(cname):
            for fn, _ in self.classes[a]["fields"]:
                obj["fields"][fn] = 0    # default value until the initialiser runs
        self.run_ctor(cname, sig, args, obj, out)
        return obj

    def run_ctor(self, cname, sig, args, obj, out):
        c = self.classes[cname]
        ctor = c["ctors"][sig]
        env = dict(zip([p for p, _ in ctor["params"]], args))
        if c["base"]:
            if ctor["super"] is not None:
                bsig, bexprs = ctor["super"]
                bargs = [self.ev(e, env, obj, cname, out) for e in bexprs]
            else:
                bsig, bargs = (), []
            self.run_ctor(c["base"], bsig, bargs, obj, out)
        for fname, init in c["fields"]:
            obj["fields"][fname] = self.ev(init, {}, obj, cname, out) if init is not None else 0
        self.run_body(ctor["body"], env, obj, cname, out)

    # ---- method lookup / dispatch
    def find_method(self, cname, mname):
        for a in self.ancestors(cname):
            if mname in self.classes[a]["methods"]:
                return a
        return None

    def call_virtual(self, static_cls, obj, mname, args, out):
        owner = self.find_method(static_cls, mname)
        m = self.classes[owner]["methods"][mname]
        if m["virtual"]:
            owner = self.find_method(obj["cls"], mname)
            m = self.classes[owner]["methods"][mname]
        return self.invoke(owner, m, obj, args, out)

    def invoke(self, owner, m, obj, args, out):
        env = dict(zip([p for p, _ in m["params"]], args))
        return self.run_body(m["body"], env, obj, owner, out)

    def run_body(self, body, env, obj, cname, out):
        for st in body:
            k = st[0]
            if k == "echo":
                out.append(st[1])
            elif k == "echov":
                out.append(st[1] + str(self.ev(st[2], env, obj, cname, out)))
            elif k == "inc_static":
                self.statics[(st[1], "cnt")] = self.statics.get((st[1], "cnt"), 0) + 1
            elif k == "eval":
                self.ev(st[1], env, obj, cname, out)
            elif k == "setfield":
                obj["fields"][st[1]] = self.ev(st[2], env, obj, cname, out)
            elif k == "bump_shared":
                root = self.ancestors(cname)[-1]
                self.statics[(root, "shared")] = self.statics.get((root, "shared"), 0) + 1
            elif k == "ret":
                return self.ev(st[1], env, obj, cname, out)
        return None

    def ev(self, e, env, obj, cname, out):
        k = e[0]
        if k == "int":
            return e[1]
        if k == "param":
            return env[e[1]]
        if k == "field":
            return obj["fields"][e[1]]
        if k == "add":
            return self.ev(e[1], env, obj, cname, out) + self.ev(e[2], env, obj, cname, out)
        if k == "tr":
            v = self.ev(e[2], env, obj, cname, out)
            out.append(e[1])
            return v
        if k == "super":       # super.m() : base version relative to the class where it is written
            base = self.classes[cname]["base"]
            owner = self.find_method(base, e[1])
            return self.invoke(owner, self.classes[owner]["methods"][e[1]], obj, [], out)
        if k == "thiscall":    # this.m() / bare m(): virtual through the dynamic class
            return self.call_virtual(cname, obj, e[1], [], out)
        if k == "static":
            return self.statics.get((e[1], "cnt"), 0)
        if k == "shared":
            return self.statics.get((self.ancestors(cname)[-1], "shared"), 0)
        raise ValueError(e)

    def destroy(self, obj, out):
        if not obj["alive"]:
            return
        obj["alive"] = False
        for a in self.ancestors(obj["cls"]):
            if self.classes[a]["dtor"]:
                out.append("~" + a)
                out.append("~" + a + ".end")     # a destructor body has more than one statement

    # ---- overloads: documented cost order (exact 0, int->long 1, subclass distance, null 3)
    def cost(self, ptype, atype):
        if atype == "null":
            return 3 if ptype in self.classes else None
        if ptype == atype:
            return 0
        if ptype == "long" and atype == "int":
            return 1
        if ptype in self.classes and atype in self.classes:
            return self.distance(atype, ptype)
        return None

    def resolve(self, overloads, atypes):
        best, bestc, amb = None, None, False
        for sig in overloads:
            if len(sig) != len(atypes):
                continue
            total = 0
            ok = True
            for p, a in zip(sig, atypes):
                c = self.cost(p, a)
                if c is None:
                    ok = False
                    break
                total += c
            if not ok:
                continue
            if bestc is None or total < bestc:
                best, bestc, amb = sig, total, False
            elif total == bestc:
                amb = True
        return None if amb else best


def rexpr(e):
    k = e[0]
    if k == "int":
        return str(e[1])
    if k == "param":
        return e[1]
    if k == "field":
        return "this." + e[1]
    if k == "add":
        return "(%s + %s)" % (rexpr(e[1]), rexpr(e[2]))
    if k == "tr":
        return 'tr("%s", %s)' % (e[1], rexpr(e[2]))
    if k == "super":
        return "super.%s()" % e[1]
    if k == "thiscall":
        return ("this.%s()" if e[2] else "%s()") % e[1]
    if k == "static":
        return "%s.cnt" % e[1]
    if k == "shared":
        return "shared"
    raise ValueError(e)


def rbody(body, ind):
    pad = "    " * ind
    out = []
    tmp = 0
    for st in body:
        k = st[0]
        if k == "echo":
            out.append('%secho("%s");' % (pad, st[1]))
        elif k == "echov":
            out.append('%secho("%s" + %s);' % (pad, st[1], rexpr(st[2])))
        elif k == "inc_static":
            out.append("%s%s.cnt = %s.cnt + 1;" % (pad, st[1], st[1]))
        elif k == "bump_shared":
            out.append("%sshared = shared + 1;" % pad)
        elif k == "eval":
            tmp += 1
            out.append("%sint %s = %s;" % (pad, st[2], rexpr(st[1])))
        elif k == "setfield":
            out.append("%sthis.%s = %s;" % (pad, st[1], rexpr(st[2])))
        elif k == "ret":
            out.append("%sreturn %s;" % (pad, rexpr(st[1])))
    return out


class Gen:
    def __init__(self, rng, gc_mode=False):
        self.r = rng
        self.m = Model()
        self.uid = 0
        self.lines = []
        self.gc_mode = gc_mode

    def fresh(self, p):
        self.uid += 1
        return "%s%d" % (p, self.uid)

    def build_classes(self):
        r, m = self.r, self.m
        n = r.randint(2, 6)
        for i in range(n):
            name = "K%d" % i
            base = None
            if i > 0:
                cands = [c for c in m.order if len(m.ancestors(c)) < 4]
                base = r.choice(cands) if cands and r.random() < 0.85 else None
            fields = []
            for j in range(r.randint(0, 2)):
                fn = "f%d_%d" % (i, j)
                init = ("tr", "%s.%s" % (name, fn), ("int", r.randint(1, 9))) if r.random() < 0.8 else None
                fields.append((fn, init))
            ctors = {}
            sigs = r.choice([[()], [("int",)], [(), ("int",)], [(), ("int",)]])
            for sig in sigs:
                params = [(self.fresh("a"), "int")] if sig else []
                sup = None
                if base:
                    bsigs = list(m.classes[base]["ctors"].keys())
                    choice = r.choice(bsigs)
                    if choice == () and r.random() < 0.5:
                        sup = None  # implicit super()
                    elif choice == ():
                        sup = ((), [])
                    else:
                        arg = ("add", ("param", params[0][0]), ("int", 1)) if params else ("int", r.randint(1, 5))
                        if r.random() < 0.6:
                            arg = ("tr", "%s.superarg" % name, arg)
                        sup = (("int",), [arg])
                    if sup is None and () not in m.classes[base]["ctors"]:
                        sup = (bsigs[0], [("int", 2)] if bsigs[0] else [])
                body = []
                if params:
                    body.append(("echov", "%s.ctor(int)" % name, ("param", params[0][0])))
                    if fields and r.random() < 0.5:
                        body.append(("setfield", fields[0][0], ("add", ("param", params[0][0]), ("int", 10))))
                else:
                    body.append(("echo", "%s.ctor()" % name))
                body.append(("inc_static", name))
                if r.random() < 0.3 and base and m.find_method(base, "vm"):
                    body.append(("eval", ("thiscall", "vm", True), self.fresh("t")))  # virtual call from a ctor
                ctors[sig] = dict(params=params, super=sup, body=body)
            methods = {}
            for vname in ("vm", "vn"):
                inherited = m.find_method(base, vname) if base else None
                if inherited is None:
                    if r.random() < 0.55:
                        methods[vname] = dict(virtual=True, mods="virtual", params=[], body=[
                            ("echo", "%s.%s" % (name, vname)), ("ret", ("int", i * 10))])
                else:
                    im = m.classes[inherited]["methods"][vname]
                    if im["overridable"] and r.random() < 0.6:
                        leaf = r.random() < 0.25
                        body = [("echo", "%s.%s" % (name, vname))]
                        if r.random() < 0.4:
                            body.append(("eval", ("super", vname), self.fresh("t")))
                        body.append(("ret", ("add", ("int", i * 10), ("field", fields[0][0])) if fields
                                     else ("int", i * 10)))
                        methods[vname] = dict(virtual=True, mods="override" if leaf else "virtual override",
                                              params=[], body=body, overridable=not leaf)
                if vname in methods:
                    methods[vname].setdefault("overridable", True)
            if base and m.find_method(base, "vm") and r.random() < 0.6:
                methods["sup%d" % i] = dict(virtual=False, mods="", params=[], body=[
                    ("echo", "%s.sup" % name), ("ret", ("super", "vm"))])
            if (("vm" in methods) or (base and m.find_method(base, "vm"))) and r.random() < 0.5:
                methods["inner%d" % i] = dict(virtual=False, mods="", params=[], body=[
                    ("echo", "%s.inner" % name), ("eval", ("thiscall", "vm", False), self.fresh("t")),
                    ("ret", ("thiscall", "vm", True))])
            methods["bump%d" % i] = dict(virtual=False, mods="", params=[], body=[
                ("bump_shared",), ("ret", ("shared",))])
            methods["get%d" % i] = dict(virtual=False, mods="", params=[], body=[
                ("ret", ("add", ("static", name), ("field", fields[0][0]) if fields else ("int", 0)))])
            dtor = r.random() < 0.75
            m.classes[name] = dict(base=base, fields=fields, ctors=ctors, methods=methods, dtor=dtor)
            m.order.append(name)

    def render_classes(self, order=None):
        m = self.m
        out = ['function tr(string t, int v) -> int {', '    echo(t);', '    return v;', '}']
        decls = []
        for name in (order or m.order):
            c = m.classes[name]
            # a base may be written with a qualified name; the last part names the class
            qual = self.r.choice(["", "", "", "pkg.", "a.b."]) if c["base"] else ""
            L = ["class %s%s {" % (name, " extends " + qual + c["base"] if c["base"] else "")]
            L.append("    public static int cnt = 0;")
            if not c["base"]:
                L.append("    public static int shared = 0;")
            for fn, init in c["fields"]:
                L.append("    public int %s%s;" % (fn, " = " + rexpr(init) if init is not None else ""))
            for sig, ct in c["ctors"].items():
                ps = ", ".join("%s %s" % (t, p) for p, t in ct["params"])
                L.append("    public constructor(%s) -> %s {" % (ps, name))
                if ct["super"] is not None:
                    L.append("        super(%s);" % ", ".join(rexpr(e) for e in ct["super"][1]))
                L += rbody(ct["body"], 2)
                L.append("        return this;")
                L.append("    }")
            for mn, md in c["methods"].items():
                L.append("    public %sfunction %s() -> int {" % (md["mods"] + " " if md["mods"] else "", mn))
                L += rbody(md["body"], 2)
                L.append("    }")
            L.append("    public static function sm() -> int {")
            L.append('        echo("%s.sm");' % name)
            L.append("        return %s.cnt;" % name)
            L.append("    }")
            if c["dtor"]:
                L.append("    public destructor() -> void {")
                L.append('        echo("~%s");' % name)
                L.append('        echo("~%s.end");' % name)
                L.append("    }")
            L.append("}")
            decls.append("\n".join(L))
        return "\n".join(out), decls

    # ---- overload holder
    def build_overloads(self):
        r, m = self.r, self.m
        self.diamond = None
        pool = PRIMS + r.sample(m.order, min(len(m.order), 3))
        sigs = set()
        for _ in range(r.randint(2, 6)):
            if r.random() < 0.75:
                sigs.add((r.choice(pool),))
            else:
                sigs.add((r.choice(pool), r.choice(pool)))
        if r.random() < 0.6:
            # a "diamond": (long,int), (int,long), (int,int) - or its class analogue - in random
            # order; a call with the most specific argument types has exactly one best match
            if r.random() < 0.5 or len(m.order) < 2:
                tri = [("long", "int"), ("int", "long"), ("int", "int")]
            else:
                sub = [c for c in m.order if m.classes[c]["base"]]
                if sub:
                    d = r.choice(sub)
                    b = m.classes[d]["base"]
                    tri = [(b, d), (d, b), (d, d)]
                else:
                    tri = [("long", "int"), ("int", "long"), ("int", "int")]
            sigs.update(tri)
            self.diamond = tri[2]
        self.ov = sorted(sigs)
        r.shuffle(self.ov)
        L = ["class U {", "    public constructor() -> U = default;"]
        for sig in self.ov:
            ps = ", ".join("%s p%d" % (t, i) for i, t in enumerate(sig))
            L.append("    public function ov(%s) -> int {" % ps)
            L.append('        echo("ov(%s)");' % ",".join(sig))
            L.append("        return %d;" % len(sig))
            L.append("    }")
        L.append("}")
        return "\n".join(L)

    BOX = ("class Box<T> {\n    public static int made = 0;\n    public T v;\n"
           "    public constructor(T v) -> Box<T> {\n        this.v = v;\n        made = made + 1;\n"
           "        return this;\n    }\n    public function count() -> int {\n        return made;\n    }\n"
           "    public function get() -> T {\n        return this.v;\n    }\n}")

    def generic_web(self):
        """2-4 generic classes that instantiate each other from inside generic code, with colliding
        type-parameter names and different arguments; every specialisation has its own static counter.
        Returns (class sources, [(main line, expected echo or None)])."""
        r = self.r
        n = r.randint(2, 4)
        names = ["Gw%d" % i for i in range(n)]
        # a type parameter may carry the name of a real class (GwTag): inside the generic class the
        # name means the parameter, everywhere else the class
        params = [r.choice(["T", "T", "U", "E", "GwTag"]) for _ in range(n)]
        rooted = [r.random() < 0.4 for _ in range(n)]     # generic class with a non-generic base
        prim = ["int", "string"]

        def lit(t, k):
            return str(k) if t == "int" else '"s%d"' % k

        def shown(t, k):
            return str(k) if t == "int" else "s%d" % k
        made = {}
        methods = []      # per class: list of (name, kind, target class index, target arg or None, literal k)
        src = []
        for i in range(n):
            P = params[i]
            L = ["class %s<%s>%s {" % (names[i], P, " extends GwRoot" if rooted[i] else ""),
                 "    public static int made = 0;", "    public %s v;" % P,
                 "    public constructor(%s v) -> %s<%s> {" % (P, names[i], P)] + (
                     ["        super();"] if rooted[i] else []) + ["        this.v = v;",
                 "        made = made + 1;", "        return this;", "    }",
                 "    public constructor() -> %s<%s> {" % (names[i], P)] + (
                     ["        super();"] if rooted[i] else []) + [
                 "        made = made + 1;", "        return this;", "    }",
                 "    public function get() -> %s {" % P, "        return this.v;", "    }",
                 "    public function count() -> int {", "        return made;", "    }"]
            ms = []
            for mi in range(r.randint(1, 3)):
                j = r.choice([x for x in range(n) if x != i] or [i])
                if j == i:
                    continue
                kind = r.choice(["count", "get", "relay"])
                k = r.randint(1, 90)
                if kind == "relay":
                    # another generic instantiated with THIS class's parameter
                    L += ["    public function m%d() -> %s {" % (mi, P),
                          "        %s<%s> t = new %s<%s>(this.v);" % (names[j], P, names[j], P),
                          "        return t.get();", "    }"]
                    ms.append(("m%d" % mi, "relay", j, None, k))
                else:
                    a = r.choice(prim)
                    rt = "int" if kind == "count" else a
                    L += ["    public function m%d() -> %s {" % (mi, rt),
                          "        %s<%s> t = new %s<%s>(%s);" % (names[j], a, names[j], a, lit(a, k)),
                          "        return t.%s();" % kind, "    }"]
                    ms.append(("m%d" % mi, kind, j, a, k))
            L.append("}")
            src.append("\n".join(L))
            methods.append(ms)
        main = []
        objs = []
        src.append("class GwRoot {\n    public int tag = 5;\n    public int tag2 = 7;\n"
                   "    public constructor() -> GwRoot = default;\n}")
        src.append("class GwTag {\n    public int n;\n    public constructor(int n) -> GwTag {\n"
                   "        this.n = n;\n        return this;\n    }\n}")
        src.append("class GwFactory {\n    public constructor() -> GwFactory = default;\n"
                   "    public function make(int k) -> GwTag {\n        return new GwTag(k);\n    }\n}")
        li = r.randrange(n)
        # a non-generic class whose base is a generic instantiation (whose base may be GwRoot)
        # (a parameterised super(k) into Base<int> is rejected by the analyser, which keeps no type
        # arguments for a base class: kept out, the no-argument constructor is used)
        src.append("class GwLeaf extends %s<int> {\n    public int own = 3;\n    public constructor(int k) -> GwLeaf {\n"
                   "        super();\n        this.own = k;\n        return this;\n    }\n}" % names[li])
        r.shuffle(src)
        if r.random() < 0.8:
            k = r.randint(1, 90)
            made[(li, "int")] = made.get((li, "int"), 0) + 1
            main.append(("GwLeaf lf = new GwLeaf(%d);" % k, None))
            main.append(("echo(lf.own);", str(k)))
            if rooted[li]:
                main.append(("echo(lf.tag2);", "7"))
            main.append(("echo(lf.count());", str(made[(li, "int")])))
        if r.random() < 0.8:
            k = r.randint(1, 90)
            main.append(("GwFactory fac = new GwFactory();", None))
            main.append(("GwTag tg = fac.make(%d);" % k, None))
            main.append(("echo(tg.n);", str(k)))
        for step in range(r.randint(3, 8)):
            if not objs or r.random() < 0.45:
                i = r.randrange(n)
                a = r.choice(prim)
                k = r.randint(1, 90)
                v = "w%d" % len(objs)
                made[(i, a)] = made.get((i, a), 0) + 1
                main.append(("%s<%s> %s = new %s<%s>(%s);" % (names[i], a, v, names[i], a, lit(a, k)), None))
                objs.append((v, i, a, k))
                continue
            v, i, a, k = r.choice(objs)
            what = r.randrange(3)
            if what == 0:
                main.append(("echo(%s.get());" % v, shown(a, k)))
            elif what == 1:
                main.append(("echo(%s.count());" % v, str(made[(i, a)])))
            elif methods[i]:
                mn, kind, j, b, kk = r.choice(methods[i])
                if kind == "relay":
                    made[(j, a)] = made.get((j, a), 0) + 1
                    main.append(("echo(%s.%s());" % (v, mn), shown(a, k)))
                else:
                    made[(j, b)] = made.get((j, b), 0) + 1
                    main.append(("echo(%s.%s());" % (v, mn),
                                 str(made[(j, b)]) if kind == "count" else shown(b, kk)))
        return src, main

    def show_functions(self):
        """function showK(K p) -> int { return p.vm(); } for classes that can see vm"""
        out = []
        self.shows = {}
        for name in self.m.order:
            if self.m.find_method(name, "vm") and self.r.random() < 0.5:
                fn = "show%s" % name
                self.shows[name] = fn
                out.append("function %s(%s p) -> int {\n    echo(\"%s\");\n    return p.vm();\n}" % (fn, name, fn))
        return out

    def default_bind_family(self):
        """Parameterised '= default' constructors: the parameters are bound to the fields of the same name
        as the constructor's body, i.e. after the class's field initialisers have run (so an initialiser
        that reads a bound field still sees its default, and a bound field's own initialiser is overwritten)."""
        r = self.r
        v1, x, y, z = r.randint(20, 90), r.randint(2, 9), r.randint(2, 9), r.randint(2, 9)
        k = r.randint(2, 5)
        fields = ["    public int bal = %d;" % v1, "    public int bonus;", "    public int snap = bonus * %d + 1;" % k,
                  "    public int twice = bal * 2;"]
        r.shuffle(fields)
        order = [f.split()[2].rstrip(";") for f in fields]
        # values after the initialisers (declaration order), before binding
        val = dict(bal=0, bonus=0, snap=0, twice=0)
        for n in order:
            if n == "bal":
                val["bal"] = v1
            elif n == "snap":
                val["snap"] = val["bonus"] * k + 1
            elif n == "twice":
                val["twice"] = val["bal"] * 2
        src = ["class DfA {\n%s\n    public constructor(int bal, int bonus) -> DfA = default;\n}" % "\n".join(fields),
               "class DfB extends DfA {\n    public int der = snap + 100;\n    public constructor(int a) -> DfB {\n"
               "        super(a, a + 1);\n        return this;\n    }\n}"]
        main = [("DfA d1 = new DfA(%d, %d);" % (x, y), None),
                ('echo("" + d1.bal + " " + d1.bonus + " " + d1.snap + " " + d1.twice);',
                 "%d %d %d %d" % (x, y, val["snap"], val["twice"])),
                ("DfB d2 = new DfB(%d);" % z, None),
                ('echo("" + d2.bal + " " + d2.bonus + " " + d2.snap + " " + d2.der);',
                 "%d %d %d %d" % (z, z + 1, val["snap"], val["snap"] + 100))]
        return src, main

    def subclass_overload_family(self):
        """A subclass adds new overloads (not overrides) of a name its base already has; the overload that runs
        for a call through a base-typed reference is the one resolved on the static class.  And objects handed
        out by a method die exactly when their last reference is dropped."""
        r = self.r
        k1, k2 = r.randint(1, 9), r.randint(1, 9)
        src = ["class OvBase {\n    public constructor() -> OvBase = default;\n"
               "    public function pick(long n) -> int {\n        echo(\"OvBase.pick(long)\");\n        return 1;\n    }\n"
               "    public function tag(OvBase o) -> int {\n        echo(\"OvBase.tag(OvBase)\");\n        return 2;\n    }\n}",
               "class OvSub extends OvBase {\n    public constructor() -> OvSub {\n        super();\n        return this;\n    }\n"
               "    public function pick(int n) -> int {\n        echo(\"OvSub.pick(int)\");\n        return 3;\n    }\n"
               "    public function tag(OvSub o) -> int {\n        echo(\"OvSub.tag(OvSub)\");\n        return 4;\n    }\n}",
               "class Noisy {\n    public int id;\n    public constructor(int id) -> Noisy {\n        this.id = id;\n        return this;\n    }\n"
               "    public destructor() -> void {\n        echo(\"~Noisy\" + this.id);\n    }\n}",
               "class Maker {\n    public constructor() -> Maker = default;\n    public function make(int k) -> Noisy {\n"
               "        return new Noisy(k);\n    }\n    public function same(Noisy n) -> Noisy {\n        return n;\n    }\n}"]
        main = [("OvBase ob = new OvSub();", None), ("OvSub os = new OvSub();", None)]
        calls = [("echo(ob.pick(%d));" % k1, ["OvBase.pick(long)", "1"]), ("echo(ob.tag(ob));", ["OvBase.tag(OvBase)", "2"]),
                 ("echo(ob.tag(os));", ["OvBase.tag(OvBase)", "2"]), ("echo(os.pick(%d));" % k2, ["OvSub.pick(int)", "3"]),
                 ("echo(os.tag(os));", ["OvSub.tag(OvSub)", "4"]), ("echo(os.pick(5L));", ["OvBase.pick(long)", "1"])]
        r.shuffle(calls)
        for line, exp in calls[:r.randint(3, 6)]:
            main.append((line, exp[0]))
            main.append((None, exp[1]))
        main.append(("Maker mk = new Maker();", None))
        form = r.randrange(3)
        if form == 0:
            main += [("Noisy n1 = mk.make(%d);" % k1, None), ("destroy n1;", "~Noisy%d" % k1), ('echo("after-destroy");', "after-destroy")]
        elif form == 1:
            main += [("Noisy n1 = mk.make(%d);" % k1, None), ("n1 = null;", "~Noisy%d" % k1), ('echo("after-null");', "after-null")]
        else:
            main += [("{", None), ("    Noisy n1 = mk.same(mk.make(%d));" % k1, None), ("}", "~Noisy%d" % k1), ('echo("after-block");', "after-block")]
        return src, main

    def drop_functions(self):
        """function dropK() -> int { K t = new K(..); echo("dropK"); return 7; }: the local object dies
        because the function returns (its destructor chain runs while the return is in flight)."""
        out = []
        self.drops = {}
        for name in self.m.order:
            if self.r.random() < 0.4:
                sig = self.r.choice(list(self.m.classes[name]["ctors"].keys()))
                args = [self.r.randint(1, 9)] if sig else []
                fn = "drop%s" % name
                val = self.r.randint(10, 99)
                form = self.r.randrange(5)
                newt = "%s t = new %s(%s);" % (name, name, ", ".join(map(str, args)))
                body = ["    " + newt, '    echo("%s");' % fn]
                if form == 3:
                    # the object lives in the nested block the return leaves: its destructors run while the
                    # return is pending, and the function must still return
                    body = ["    if (true) {", "        " + newt, '        echo("%s");' % fn, "        return %d;" % val,
                            "    }", '    echo("%s.not-returned");' % fn, "    return 0;"]
                elif form == 4:
                    body = ["    for (int i = 0; i < 3; i = i + 1) {", "        " + newt, '        echo("%s");' % fn,
                            "        return %d;" % val, "    }", '    echo("%s.not-returned");' % fn, "    return 0;"]
                elif form == 0:
                    body.append("    return %d;" % val)
                elif form == 1:
                    body += ["    if (true) {", "        return %d;" % val, "    }", "    return 0;"]
                else:
                    body += ["    for (int i = 0; i < 3; i = i + 1) {", "        return %d;" % val, "    }", "    return 0;"]
                out.append("function %s() -> int {\n%s\n}" % (fn, "\n".join(body)))
                self.drops[name] = (fn, sig, args, val)
        # factory functions: the new object reaches its variable through the interpreter's return slot
        self.makes = {}
        for name in self.m.order:
            if self.r.random() < 0.4:
                sig = self.r.choice(list(self.m.classes[name]["ctors"].keys()))
                args = [self.r.randint(1, 9)] if sig else []
                fn = "make%s" % name
                if self.r.random() < 0.5:
                    body = "    return new %s(%s);" % (name, ", ".join(map(str, args)))
                else:
                    body = "    %s fresh = new %s(%s);\n    return fresh;" % (name, name, ", ".join(map(str, args)))
                out.append("function %s() -> %s {\n%s\n}" % (fn, name, body))
                self.makes[name] = (fn, sig, args)
        return out

    # ---- main
    def build_main(self):
        r, m = self.r, self.m
        L = ["function main() -> void {", "    U u = new U();"]
        out = m.out
        scopes = [dict()]   # var -> dict(static, obj)
        allocs = 1

        def all_vars():
            d = {}
            for s in scopes:
                d.update(s)
            return d

        def release(obj):
            m.destroy(obj, out)

        def new_expr(static):
            dyn_c = [c for c in m.order if static in m.ancestors(c)]
            dyn = r.choice(dyn_c)
            sig = r.choice(list(m.classes[dyn]["ctors"].keys()))
            args = [r.randint(1, 9)] if sig else []
            return dyn, sig, args, "new %s(%s)" % (dyn, ", ".join(map(str, args)))

        def emit(ind, text):
            L.append("    " * ind + text)

        def ov_probe(w, static, ind):
            """u.ov(w): the overload the analyser picks from w's declared class must be the one that runs"""
            sig = m.resolve(self.ov, [static])
            if sig is not None and r.random() < 0.8:
                emit(ind, "echo(u.ov(%s));" % w)
                out.append("ov(%s)" % ",".join(sig))
                out.append(str(len(sig)))

        n = r.randint(6, 16)
        depth = 1
        for _ in range(n):
            if self.diamond and r.random() < 0.12:
                # a call whose argument types are the apex of the overload diamond: two worse candidates tie,
                # one candidate is strictly best
                apex = self.diamond
                if apex == ("int", "int"):
                    args_src = ["%d" % r.randint(1, 9), "%d" % r.randint(1, 9)]
                else:
                    vs0 = {v: d for s0 in scopes for v, d in s0.items() if d["obj"] is not None and d["static"] == apex[0]}
                    args_src = [r.choice(sorted(vs0)), r.choice(sorted(vs0))] if vs0 else None
                if args_src:
                    sig = m.resolve(self.ov, list(apex))
                    if sig is not None:
                        emit(depth, "echo(u.ov(%s));" % ", ".join(args_src))
                        out.append("ov(%s)" % ",".join(sig))
                        out.append(str(len(sig)))
                    continue
            if self.drops and r.random() < 0.12:
                cname = r.choice(sorted(self.drops))
                fn, sig, args, val = self.drops[cname]
                emit(depth, "echo(%s());" % fn)
                tmp = m.construct(cname, sig, args, out)
                out.append(fn)
                m.destroy(tmp, out)
                out.append(str(val))
                continue
            k = r.random()
            vs = all_vars()
            live = {v: d for v, d in vs.items() if d["obj"] is not None}
            if (k < 0.25 or not live) and allocs < 14:
                static = r.choice(m.order)
                dyn, sig, args, src = new_expr(static)
                if dyn in self.makes and r.random() < 0.5:
                    fn, sig, args = self.makes[dyn]
                    src = "%s()" % fn
                v = self.fresh("o")
                if r.random() < 0.2:
                    # declared holding null, assigned afterwards: the variable keeps its declared class
                    emit(depth, "%s %s = null;" % (static, v))
                    emit(depth, "%s = %s;" % (v, src))
                else:
                    emit(depth, "%s %s = %s;" % (static, v, src))
                obj = m.construct(dyn, sig, args, out)
                scopes[-1][v] = dict(static=static, obj=obj, refs=1)
                allocs += 1
                if dyn != static:
                    ov_probe(v, static, depth)
                continue
            dead = {v: d for v, d in vs.items() if d["obj"] is None}
            if dead and allocs < 14 and r.random() < 0.2:
                # a destroyed variable is assigned again (its declared class is still what overloads see)
                v = r.choice(sorted(dead))
                dyn, sig, args, src = new_expr(dead[v]["static"])
                emit(depth, "%s = %s;" % (v, src))
                dead[v]["obj"] = m.construct(dyn, sig, args, out)
                allocs += 1
                ov_probe(v, dead[v]["static"], depth)
                continue
            if not live:
                continue
            v = r.choice(sorted(live))
            d = live[v]
            st = d["static"]
            if k < 0.40:
                cands = [mn for mn in ("vm", "vn") if m.find_method(st, mn)]
                if cands:
                    mn = r.choice(cands)
                    emit(depth, "echo(%s.%s());" % (v, mn))
                    val = m.call_virtual(st, d["obj"], mn, [], out)
                    out.append(str(val))
                continue
            if k < 0.52:
                own = [mn for a in m.ancestors(st) for mn in m.classes[a]["methods"]
                       if mn.startswith(("sup", "inner", "get", "bump"))]
                if own:
                    mn = r.choice(own)
                    emit(depth, "echo(%s.%s());" % (v, mn))
                    owner = m.find_method(st, mn)
                    val = m.invoke(owner, m.classes[owner]["methods"][mn], d["obj"], [], out)
                    out.append(str(val))
                continue
            if k < 0.66:
                # overload call with static argument types
                atypes, asrc = [], []
                for _ in range(r.choice([1, 1, 2, 2])):
                    q = r.random()
                    if q < 0.5:
                        t = r.choice(PRIMS)
                        atypes.append(t)
                        asrc.append(LIT[t])
                    elif q < 0.9:
                        w = r.choice(sorted(live))
                        atypes.append(live[w]["static"])
                        asrc.append(w)
                    else:
                        atypes.append("null")
                        asrc.append("null")
                sig = m.resolve(self.ov, atypes)
                if sig is not None:
                    emit(depth, "echo(u.ov(%s));" % ", ".join(asrc))
                    out.append("ov(%s)" % ",".join(sig))
                    out.append(str(len(sig)))
                continue
            if k < 0.69:
                c = r.choice(m.order)
                emit(depth, "echo(%s.sm());" % c)
                out.append("%s.sm" % c)
                out.append(str(m.statics.get((c, "cnt"), 0)))
                continue
            if k < 0.72:
                # a static declared in the root class, reached through a (derived) class name
                c = r.choice(m.order)
                root = m.ancestors(c)[-1]
                if r.random() < 0.5:
                    emit(depth, "%s.shared = %s.shared + 10;" % (c, c))
                    m.statics[(root, "shared")] = m.statics.get((root, "shared"), 0) + 10
                emit(depth, "echo(%s.shared);" % c)
                out.append(str(m.statics.get((root, "shared"), 0)))
                continue
            if k < 0.78 and st in self.shows or (k < 0.78 and any(a in self.shows for a in m.ancestors(st))):
                p = next(a for a in m.ancestors(st) if a in self.shows)
                emit(depth, "echo(%s(%s));" % (self.shows[p], v))
                out.append(self.shows[p])
                val = m.call_virtual(p, d["obj"], "vm", [], out)
                out.append(str(val))
                continue
            if k < 0.84:
                flds = [fn for a in m.ancestors(st) for fn, _ in m.classes[a]["fields"]]
                if flds:
                    fn = r.choice(flds)
                    val = r.randint(20, 40)
                    emit(depth, "%s.%s = %d;" % (v, fn, val))
                    d["obj"]["fields"][fn] = val
                    emit(depth, "echo(%s.%s);" % (v, fn))
                    out.append(str(val))
                continue
            if k < 0.90:
                # only variables of the current scope chain; destroying drops this reference
                emit(depth, "destroy %s;" % v)
                release(d["obj"])
                d["obj"] = None
                continue
            if k < 0.94 and allocs < 14:
                dyn, sig, args, src = new_expr(st)
                if r.random() < 0.4:
                    emit(depth, "%s = null;" % v)       # the old object dies here, before the new one exists
                    release(d["obj"])
                    d["obj"] = None
                    emit(depth, "%s = %s;" % (v, src))
                    d["obj"] = m.construct(dyn, sig, args, out)
                    allocs += 1
                    ov_probe(v, st, depth)
                    continue
                emit(depth, "%s = %s;" % (v, src))
                newobj = m.construct(dyn, sig, args, out)
                release(d["obj"])
                d["obj"] = newobj
                allocs += 1
                continue
            if depth == 1 and k < 0.98:
                emit(depth, "{")
                depth += 1
                scopes.append(dict())
                continue
            if depth > 1:
                depth -= 1
                self.close_scope(scopes.pop(), out)
                emit(depth, "}")
        while depth > 1:
            depth -= 1
            self.close_scope(scopes.pop(), out)
            emit(depth, "}")
        # generic specialisations: one set of statics per instantiation
        if r.random() < 0.7:
            emit(1, "Box<int> b1 = new Box<int>(7);")
            emit(1, "Box<string> b2 = new Box<string>(\"x\");")
            emit(1, "Box<int> b3 = new Box<int>(8);")
            emit(1, "echo(b1.count());")
            emit(1, "echo(b2.count());")
            emit(1, "echo(b3.get());")
            emit(1, "echo(b2.get());")
            out += ["2", "1", "8", "x"]
        for line, exp in self.web_main:
            if line is not None:
                emit(1, line)
            if exp is not None:
                out.append(exp)
        emit(1, 'echo("end");')
        out.append("end")
        self.close_scope(scopes.pop(), out)
        L.append("}")
        return "\n".join(L)

    def close_scope(self, scope, out):
        bag = Bag()
        for v, d in scope.items():
            if d["obj"] is not None and d["obj"]["alive"]:
                chain = []
                self.m.destroy(d["obj"], chain)
                if chain:
                    bag.append(chain)
        if bag:
            out.append(bag)

    def program(self):
        self.build_classes()
        prelude, decls = self.render_classes()
        u = self.build_overloads()
        shows = self.show_functions()
        web, self.web_main = self.generic_web() if self.r.random() < 0.7 else ([], [])
        if self.r.random() < 0.5:
            dsrc, dmain = self.default_bind_family()
            web = web + dsrc
            self.web_main = self.web_main + dmain
        if self.r.random() < 0.5:
            dsrc, dmain = self.subclass_overload_family()
            web = web + dsrc
            self.web_main = self.web_main + dmain
        drops = self.drop_functions()
        main = self.build_main()
        parts = [prelude] + decls + [u, self.BOX] + web + shows + drops + [main]
        return parts, self.m.out


def match_output(expected, got):
    """Compare got (list of lines) with expected (lines and Bags). Returns None or a message."""
    i = 0
    for e in expected:
        if isinstance(e, Bag):
            chains = [list(c) for c in e]
            while chains:
                hit = None
                for c in chains:
                    if got[i:i + len(c)] == c:
                        hit = c
                        break
                if hit is None:
                    return "at output line %d: expected one of the destructor chains %r, got %r" % (
                        i, chains, got[i:i + 4])
                i += len(hit)
                chains.remove(hit)
        else:
            if i >= len(got) or got[i] != e:
                return "at output line %d: expected %r, got %r" % (i, e, got[i] if i < len(got) else None)
            i += 1
    if i != len(got):
        return "extra output after line %d: %r" % (i, got[i:i + 4])
    return None


def generate(rng):
    g = Gen(rng)
    parts, expected = g.program()
    return "\n".join(parts) + "\n", expected, g
