"""Runs the C++ simulator monitor (harness/simmon.cpp) in shards and merges its reports."""
import json
import os

from . import build, core


def run_simmon(ctx, prop, shards=16):
    plain = build.build("simmon", "plain")
    asan = build.build("simmon", "asan")
    jobs = [(plain, ctx.tier, i, shards, "plain") for i in range(shards)]
    # a slice of the same workload under ASan+UBSan: index arithmetic going out of bounds is a
    # violation even when the amplitudes still compare equal
    jobs.append((asan, "quick", 0, 8 if ctx.quick() else 2, "asan"))

    def one(job):
        binary, tier, i, k, flavour = job
        r = core.run([binary, prop.lower(), "--tier", tier, "--seed", str(ctx.seed),
                      "--shard", "%d/%d" % (i, k)], timeout=3600 if tier == "thorough" else 600,
                     retry_timeout=False)
        return job, r

    samples = []
    for job, r in core.pmap(one, jobs, workers=17):
        flavour = job[4]
        cls = r.classify()
        if cls[0] == "sanitizer":
            ctx.violation(cls[1], "sanitizer report inside the simulator monitor run: " +
                          r.san[0]["text"][:400], case=dict(argv=job[1:4]),
                          files={"stderr.txt": r.stderr[-20000:]})
            continue
        if cls[0] == "timeout":
            ctx.inconclusive_because("simmon shard %d timed out" % job[2])
            continue
        if cls[0] != "ok":
            ctx.inconclusive_because("simmon shard %d failed: %r" % (job[2], cls))
            continue
        got_summary = False
        for line in r.stdout.splitlines():
            try:
                o = json.loads(line)
            except ValueError:
                continue
            if o.get("violation"):
                ctx.violation(o["key"], o["what"], case=dict(simmon_case=o["case"], prop=prop))
            elif o.get("summary"):
                got_summary = True
                with ctx.lock:
                    ctx.evaluations += o["evaluations"]
                    if flavour == "plain":
                        ctx.distinct_extra += o["distinct"]
                    for k, v in o["counters"].items():
                        key = k if flavour == "plain" else "asan_" + k
                        if k == "exhaustive_max_n":
                            ctx.counters[key] = max(ctx.counters.get(key, 0), v)
                        else:
                            ctx.counters[key] = ctx.counters.get(key, 0) + v
                    if flavour == "plain":
                        samples.extend(o["samples"])
        if not got_summary:
            ctx.inconclusive_because("simmon shard %d printed no summary" % job[2])
    # shards partition the case space, so distinct counts add up
    with ctx.lock:
        for smp in samples:
            if len(ctx.samples) < 6:
                ctx.samples.append(smp)
    return samples


def replay_simmon(ctx, prop, case):
    plain = build.build("simmon", "plain")
    r = core.run([plain, prop.lower(), "--case", case["simmon_case"]], timeout=600)
    for line in r.stdout.splitlines():
        try:
            o = json.loads(line)
        except ValueError:
            continue
        if o.get("violation"):
            ctx.violation(o["key"], o["what"], case=case)
    print(r.stdout[-2000:])
