"""Content-hashed builds of /repo sources + /verif harnesses, one directory per sanitizer flavour.

Every check calls build(target, flavour): translation units are recompiled only when their
content, any header under /repo/src (or /verif/harness), or the flags changed, so an edited
source is always rebuilt and a cached object is never stale.  A flock per flavour serialises
concurrent builders.
"""
import fcntl
import hashlib
import os
import subprocess
import sys
import time
from concurrent.futures import ThreadPoolExecutor

REPO = os.environ.get("VERIF_REPO", "/repo")
VERIF = os.path.dirname(os.path.dirname(os.path.abspath(__file__)))
BUILD = os.environ.get("VERIF_BUILD", os.path.join(VERIF, "build"))
SRC = os.path.join(REPO, "src")
HARNESS = os.path.join(VERIF, "harness")

COMMON = ["-std=gnu++20", "-I" + SRC, "-I" + HARNESS, "-DBLOCH_VERIF",
          '-DBLOCH_VERSION="v0.0.0-verif"', '-DBLOCH_COMMIT_HASH="verif"', "-pthread"]

# crash-class UBSan checks are fatal; value-UB checks (signed overflow, float cast, shift) are
# reported but not fatal (DESIGN section 0).
UB_FATAL = "integer-divide-by-zero,null,bounds,vptr,alignment,return,unreachable,bool,enum"

FLAVOURS = {
    "asan": dict(cxx="g++", flags=["-O0", "-g", "-fno-omit-frame-pointer",
                                   "-fsanitize=address,undefined",
                                   "-fno-sanitize-recover=" + UB_FATAL]),
    "tsan": dict(cxx="g++", flags=["-O1", "-g", "-fno-omit-frame-pointer", "-fsanitize=thread"]),
    "plain": dict(cxx="g++", flags=["-O2", "-g"]),
    "fuzz": dict(cxx="clang++-14", flags=["-O1", "-g", "-fno-omit-frame-pointer",
                                          "-fsanitize=fuzzer,address,undefined",
                                          "-fno-sanitize=object-size,pointer-overflow,"
                                          "signed-integer-overflow,float-cast-overflow,shift",
                                          "-fno-sanitize-recover=all"]),
}

COMPILER = ["bloch/compiler/import/module_loader.cpp", "bloch/compiler/lexer/lexer.cpp",
            "bloch/compiler/parser/parser.cpp", "bloch/compiler/semantics/built_ins.cpp",
            "bloch/compiler/semantics/semantic_analyser.cpp",
            "bloch/compiler/semantics/type_system.cpp"]
RUNTIME = ["bloch/runtime/qasm_simulator.cpp", "bloch/runtime/runtime_evaluator.cpp"]
CLI = ["bloch/cli/cli.cpp", "main.cpp"]

# target -> (repo TUs, harness TUs, extra link flags)
TARGETS = {
    "bloch": (COMPILER + RUNTIME + CLI, ["update_stub.cpp"], []),
    "simmon": (["bloch/runtime/qasm_simulator.cpp"], ["simmon.cpp"], []),
    "frontdump": (COMPILER, ["frontdump.cpp"], []),
    "evalmon": (COMPILER + RUNTIME, ["evalmon.cpp"], []),
    "updmon": ([], ["updmon.cpp"], ["-lssl", "-lcrypto"]),
    "fuzz_front": (COMPILER, ["fuzz_front.cpp"], []),
}


def _sha(*parts):
    h = hashlib.sha256()
    for p in parts:
        h.update(p if isinstance(p, bytes) else p.encode())
        h.update(b"\0")
    return h.hexdigest()[:20]


def _tree_hash(root, exts):
    items = []
    for d, _, files in os.walk(root):
        if "third_party" in d:
            continue
        for f in sorted(files):
            if f.endswith(exts):
                p = os.path.join(d, f)
                with open(p, "rb") as fh:
                    items.append((os.path.relpath(p, root), hashlib.sha256(fh.read()).hexdigest()))
    items.sort()
    return _sha(*[a + ":" + b for a, b in items])


class BuildError(Exception):
    pass


def build(target, flavour, quiet=True):
    """Return the path of an up-to-date binary for (target, flavour)."""
    fl = FLAVOURS[flavour]
    repo_tus, harness_tus, link_extra = TARGETS[target]
    fdir = os.path.join(BUILD, flavour)
    os.makedirs(os.path.join(fdir, "obj"), exist_ok=True)
    os.makedirs(os.path.join(fdir, "bin"), exist_ok=True)
    lock = open(os.path.join(fdir, ".lock"), "w")
    fcntl.flock(lock, fcntl.LOCK_EX)
    try:
        hdr_repo = _tree_hash(SRC, (".hpp", ".h"))
        hdr_harness = _tree_hash(HARNESS, (".hpp", ".h"))
        # update_manager.cpp is #included by updmon.cpp, so it acts as a header there
        upd = ""
        if target == "updmon":
            with open(os.path.join(SRC, "bloch/update/update_manager.cpp"), "rb") as fh:
                upd = hashlib.sha256(fh.read()).hexdigest()
        flags = COMMON + fl["flags"]
        jobs = []
        objs = []
        for kind, tus in (("repo", repo_tus), ("harness", harness_tus)):
            for tu in tus:
                path = os.path.join(SRC if kind == "repo" else HARNESS, tu)
                with open(path, "rb") as fh:
                    content = fh.read()
                key = _sha(fl["cxx"], " ".join(flags), content, hdr_repo,
                           hdr_harness if kind == "harness" else "", upd)
                stem = kind + "_" + tu.replace("/", "_").replace(".cpp", "")
                obj = os.path.join(fdir, "obj", "%s-%s.o" % (stem, key))
                objs.append(obj)
                if not os.path.exists(obj):
                    jobs.append((path, obj, stem))
        t0 = time.time()

        def compile_one(job):
            path, obj, stem = job
            tmp = obj + ".tmp%d" % os.getpid()
            cmd = [fl["cxx"]] + flags + ["-c", path, "-o", tmp]
            r = subprocess.run(cmd, stdout=subprocess.PIPE, stderr=subprocess.STDOUT, text=True)
            if r.returncode != 0:
                return (job, r.stdout)
            os.replace(tmp, obj)
            # drop stale objects of the same TU
            for f in os.listdir(os.path.join(fdir, "obj")):
                if f.startswith(stem + "-") and os.path.join(fdir, "obj", f) != obj \
                        and f.endswith(".o"):
                    try:
                        os.unlink(os.path.join(fdir, "obj", f))
                    except OSError:
                        pass
            return (job, None)

        if jobs:
            if not quiet:
                print("[build] %s/%s: compiling %d TU(s)" % (flavour, target, len(jobs)),
                      file=sys.stderr)
            with ThreadPoolExecutor(max_workers=16) as ex:
                for job, err in ex.map(compile_one, jobs):
                    if err is not None:
                        raise BuildError("compile failed: %s\n%s" % (job[0], err[-4000:]))
        binkey = _sha(*objs, " ".join(link_extra))
        binary = os.path.join(fdir, "bin", "%s-%s" % (target, binkey))
        if not os.path.exists(binary):
            tmp = binary + ".tmp%d" % os.getpid()
            cmd = [fl["cxx"]] + fl["flags"] + ["-pthread"] + objs + link_extra + ["-o", tmp]
            r = subprocess.run(cmd, stdout=subprocess.PIPE, stderr=subprocess.STDOUT, text=True)
            if r.returncode != 0:
                raise BuildError("link failed: %s\n%s" % (target, r.stdout[-4000:]))
            os.replace(tmp, binary)
            for f in os.listdir(os.path.join(fdir, "bin")):
                if f.startswith(target + "-") and os.path.join(fdir, "bin", f) != binary:
                    try:
                        os.unlink(os.path.join(fdir, "bin", f))
                    except OSError:
                        pass
        if jobs and not quiet:
            print("[build] %s/%s ready in %.1fs" % (flavour, target, time.time() - t0),
                  file=sys.stderr)
        return binary
    finally:
        fcntl.flock(lock, fcntl.LOCK_UN)
        lock.close()


if __name__ == "__main__":
    for spec in sys.argv[1:]:
        t, f = spec.split(":")
        print(build(t, f, quiet=False))
