"""Helpers for the front-end monitors: batch driver for harness/frontdump.cpp."""
import json
import os
import shutil

from . import build, core


MAX_HANGS = 3        # per run_batch call
BATCH_CPU_S = 40     # CPU limit of one frontdump process (a clean batch of 400 sources needs a few seconds)


def skipped(r):
    return r["crash"] is not None and r["crash"][0] == "skipped"


def run_batch(mode, sources, flavour="asan", per_proc=400, timeout=300, ext=".bloch"):
    """Run frontdump <mode> over many sources.  Returns a list (same order) of dicts:
    {lines:[parsed json or raw str...], crash: None|classification, stderr}."""
    binary = build.build("frontdump", flavour)
    root = core.scratch_dir("fd")
    n = len(sources)
    paths = []
    for i, src in enumerate(sources):
        p = os.path.join(root, "s%06d%s" % (i, ext))
        with open(p, "wb") as f:
            f.write(src if isinstance(src, bytes) else src.encode("latin-1", "replace"))
        paths.append(p)
    chunks = [list(range(i, min(n, i + per_proc))) for i in range(0, n, per_proc)]
    results = [None] * n

    def parse_out(stdout):
        cur = None
        out = {}
        for line in stdout.split("\n"):
            if line.startswith("BEGIN "):
                cur = line[6:]
                out[cur] = dict(lines=[], done=False)
            elif line.startswith("END "):
                if cur is not None:
                    out[cur]["done"] = True
                cur = None
            elif cur is not None and line:
                try:
                    out[cur]["lines"].append(json.loads(line))
                except ValueError:
                    out[cur]["lines"].append(line)
        return out

    hangs = [0]

    def one(chunk):
        todo = list(chunk)
        while todo:
            if hangs[0] >= MAX_HANGS:
                # the tree under test hangs on input after input: the hangs already found are reported
                # by the caller; the rest of the batch is not judged (each hang costs a CPU limit)
                for i in todo:
                    results[i] = dict(lines=[], crash=("skipped", "after %d hangs" % hangs[0]), stderr="")
                break
            lst = os.path.join(root, "list-%d.txt" % todo[0])
            with open(lst, "w") as f:
                f.write("\n".join(paths[i] for i in todo) + "\n")
                # a second entry keeps frontdump in batch (BEGIN/END) mode for single files
                if len(todo) == 1:
                    f.write(paths[todo[0]] + "\n")
            r = core.run([binary, mode, "--list", lst], timeout=timeout, cpu_s=BATCH_CPU_S + int(0.06 * per_proc), retry_timeout=False)
            out = parse_out(r.stdout)
            if r.classify()[0] == "timeout":
                hangs[0] += 1
            progressed = False
            nxt = []
            culprit_assigned = False
            for i in todo:
                o = out.get(paths[i])
                if o is not None and o["done"]:
                    results[i] = dict(lines=o["lines"], crash=None, stderr="")
                    progressed = True
                elif o is not None and not culprit_assigned:
                    # process died (or hung) while handling this file
                    results[i] = dict(lines=o["lines"], crash=r.classify(), stderr=r.stderr[-8000:])
                    culprit_assigned = True
                    progressed = True
                else:
                    nxt.append(i)
            if not progressed:
                for i in nxt:
                    results[i] = dict(lines=[], crash=("harness", "no output"),
                                      stderr=r.stderr[-2000:])
                break
            todo = nxt
        return None

    core.pmap(one, chunks)
    shutil.rmtree(root, ignore_errors=True)
    return results
