"""Shared plumbing: context, subprocess runner with sanitizer-report parsing, verdicts,
known-findings matching, replay witnesses and evidence files."""
import hashlib
import json
import os
import random
import re
import resource
import shutil
import signal
import subprocess
import sys
import tempfile
import threading
import time
from concurrent.futures import ThreadPoolExecutor

VERIF = os.path.dirname(os.path.dirname(os.path.abspath(__file__)))
# development only: evidence/replay of a side run against another tree go elsewhere
OUTROOT = os.environ.get("VERIF_OUTROOT", VERIF)
REPO = os.environ.get("VERIF_REPO", "/repo")
SCRATCH = os.path.join(VERIF, "scratch", str(os.getpid()))
ANSI = re.compile(r"\x1b\[[0-9;]*m")
DIAG = re.compile(r"^(Lexical|Parse|Semantic|Runtime) error(?: at Ln (\d+), Col (\d+))?: (.*)$")
STOP_LINE = "[ERROR]: Stopping program execution..."

BASE_ENV = {
    "BLOCH_NO_UPDATE_CHECK": "1",
    "BLOCH_STDLIB_PATH": os.path.join(REPO, "library"),
    "ASAN_OPTIONS": "abort_on_error=0:exitcode=97:detect_leaks=0:allocator_may_return_null=1:"
                    "detect_stack_use_after_return=0",
    "UBSAN_OPTIONS": "print_stacktrace=1:halt_on_error=0",
    "TSAN_OPTIONS": "halt_on_error=0:exitcode=96:second_deadlock_stack=1",
    "PATH": os.environ.get("PATH", "/usr/bin:/bin"),
    "HOME": SCRATCH,
    "LC_ALL": "C",
}


def strip_ansi(s):
    return ANSI.sub("", s)


class Result:
    __slots__ = ("rc", "sig", "stdout", "stderr", "timeout", "san", "wall", "qasm", "stalled")

    def __init__(self):
        self.rc = None
        self.sig = None
        self.stdout = ""
        self.stderr = ""
        self.timeout = False
        self.san = []
        self.wall = 0.0
        self.qasm = None
        self.stalled = False

    def diag(self):
        """(category, line, col, msg) of the single diagnostic after the stop line, or None."""
        lines = [l for l in strip_ansi(self.stderr).splitlines()]
        for i, l in enumerate(lines):
            if l.strip() == STOP_LINE:
                rest = [x for x in lines[i + 1:] if x.strip()]
                if not rest:
                    return None
                m = DIAG.match(rest[0])
                if m:
                    return (m.group(1), int(m.group(2) or 0), int(m.group(3) or 0), m.group(4),
                            len(rest))
                return ("RAW", 0, 0, rest[0], len(rest))
        return None

    def classify(self):
        """One of: ('ok',), ('diag',cat,line,col,msg), ('raw',text), ('signal',n),
        ('sanitizer',key), ('timeout',), ('exit',rc)."""
        fatal = [s for s in self.san if s["fatal"]]
        if fatal:
            return ("sanitizer", fatal[0]["key"])
        if self.timeout or self.sig == 24:   # wall watchdog, or SIGXCPU from the CPU limit
            return ("timeout",)
        if self.sig is not None:
            return ("signal", self.sig)
        if self.rc == 0:
            return ("ok",)
        d = self.diag()
        if self.rc == 1 and d is not None:
            if d[0] == "RAW":
                return ("raw", d[3][:80])
            return ("diag", d[0], d[1], d[2], d[3])
        if self.rc == 1:
            return ("exit1-nodiag", strip_ansi(self.stderr).strip()[:80])
        return ("exit", self.rc)


SAN_HDR = re.compile(r"==\d+==ERROR: (AddressSanitizer|LeakSanitizer|ThreadSanitizer): ([^\n]*)")
TSAN_HDR = re.compile(r"WARNING: ThreadSanitizer: ([^\(\n]*)")
UBSAN_LINE = re.compile(r"^(\S+?):(\d+):(\d+): runtime error: (.*)$", re.M)
FRAME = re.compile(r"#\d+ 0x[0-9a-f]+ in (.+?) (/\S+?):(\d+)")
VALUE_UB = ("signed integer overflow", "outside the range of representable values",
            "shift exponent", "left shift of", "negation of")


def _bloch_frames(block, n=2):
    out = []
    for m in FRAME.finditer(block):
        fn, path = m.group(1), m.group(2)
        if "/src/bloch/" in path or "/harness/" in path or "/src/main.cpp" in path:
            name = fn.split("(")[0]
            name = name.replace("bloch::runtime::", "").replace("bloch::compiler::", "")
            name = name.replace("bloch::", "")
            if name not in out:
                out.append(name)
            if len(out) >= n:
                break
    return out


def parse_sanitizer(stderr):
    """Return a list of {kind, key, fatal, text} for sanitizer reports found in stderr."""
    reports = []
    text = stderr
    for m in SAN_HDR.finditer(text):
        tool, rest = m.group(1), m.group(2)
        kind = rest.split(" on ")[0].split(" ")[0].strip(":")
        block = text[m.start():m.start() + 20000]
        frames = _bloch_frames(block)
        pre = {"AddressSanitizer": "asan", "LeakSanitizer": "lsan", "ThreadSanitizer": "tsan"}[tool]
        reports.append(dict(kind=kind, fatal=True, text=block[:3000],
                            key="%s:%s:%s" % (pre, kind, "<-".join(frames) or "?")))
    for m in TSAN_HDR.finditer(text):
        kind = m.group(1).strip().replace(" ", "-")
        block = text[m.start():m.start() + 20000]
        end = block.find("\n==================", 10)
        if end > 0:
            block = block[:end]
        frames = _bloch_frames(block, 4)
        reports.append(dict(kind=kind, fatal=True, text=block[:4000],
                            key="tsan:%s:%s" % (kind, "<-".join(frames) or "?")))
    for m in UBSAN_LINE.finditer(text):
        msg = m.group(4)
        value = any(v in msg for v in VALUE_UB)
        block = text[m.start():m.start() + 6000]
        frames = _bloch_frames(block, 1)
        short = re.sub(r"0x[0-9a-f]+", "PTR", msg)
        short = re.sub(r"-?\d+", "N", short)[:60]
        reports.append(dict(kind="ubsan", fatal=not value, text=block[:1500],
                            key="ubsan:%s:%s" % (short.replace(" ", "_"),
                                                  "<-".join(frames) or os.path.basename(m.group(1)))))
    return reports


def _limits(stack_mb, cpu_s):
    def fn():
        try:
            resource.setrlimit(resource.RLIMIT_STACK, (stack_mb << 20, stack_mb << 20))
        except (ValueError, OSError):
            pass
        try:
            resource.setrlimit(resource.RLIMIT_CPU, (cpu_s, cpu_s + 5))
        except (ValueError, OSError):
            pass
        resource.setrlimit(resource.RLIMIT_CORE, (0, 0))
        os.setsid()
    return fn


def _cpu_ticks(pid):
    """utime+stime of the whole process (all threads), or None when it is gone."""
    try:
        with open("/proc/%d/stat" % pid) as f:
            rest = f.read().rsplit(")", 1)[1].split()
        return int(rest[11]) + int(rest[12])
    except (OSError, IndexError, ValueError):
        return None


def run(cmd, env=None, cwd=None, timeout=30, stdin=None, stack_mb=1024, cpu_s=120, retry_timeout=True,
        stall_s=None):
    """Run one child; classify; a watchdog hit is re-run once, alone, before it is believed."""
    e = dict(BASE_ENV)
    if env:
        e.update(env)
    for attempt in (0, 1):
        r = Result()
        t0 = time.time()
        try:
            p = subprocess.Popen(cmd, env=e, cwd=cwd, stdin=subprocess.PIPE if stdin is not None
                                 else subprocess.DEVNULL, stdout=subprocess.PIPE,
                                 stderr=subprocess.PIPE, preexec_fn=_limits(stack_mb, cpu_s))
        except OSError as ex:
            r.rc = 127
            r.stderr = str(ex)
            return r
        limit = timeout * (1 if attempt == 0 else 2)
        try:
            if stall_s is None:
                out, err = p.communicate(stdin, timeout=limit)
            else:
                # deadlock watchdog: a process that is alive but has not consumed any CPU time for stall_s
                # seconds is blocked for good (a starved process on a loaded machine still accumulates ticks)
                last, since, first = None, time.time(), True
                while True:
                    try:
                        out, err = p.communicate(stdin if first else None, timeout=1.0)
                        break
                    except subprocess.TimeoutExpired:
                        first = False
                        ticks = _cpu_ticks(p.pid)
                        now = time.time()
                        if ticks != last:
                            last, since = ticks, now
                        elif now - since >= stall_s:
                            r.stalled = True
                            raise
                        if now - t0 >= limit:
                            raise
        except subprocess.TimeoutExpired:
            try:
                os.killpg(p.pid, signal.SIGKILL)
            except OSError:
                pass
            out, err = p.communicate()
            r.timeout = True
        r.wall = time.time() - t0
        r.stdout = out.decode("utf-8", "replace")
        r.stderr = err.decode("utf-8", "replace")
        if p.returncode is not None and p.returncode < 0:
            r.sig = -p.returncode
        r.rc = p.returncode
        r.san = parse_sanitizer(r.stderr)
        if r.timeout and retry_timeout and attempt == 0 and not r.stalled:
            continue
        return r
    return r


_scratch_lock = threading.Lock()


def scratch_dir(prefix="c"):
    os.makedirs(SCRATCH, exist_ok=True)
    return tempfile.mkdtemp(prefix=prefix + "-", dir=SCRATCH)


def read_trace(path):
    ev = []
    try:
        with open(path) as f:
            for line in f:
                line = line.strip()
                if not line:
                    continue
                try:
                    ev.append(json.loads(line))
                except ValueError:
                    pass  # torn last line after a crash
    except OSError:
        pass
    return ev


def run_bloch(binary, source, args=(), env=None, trace=False, state=None, timeout=30,
              keep=False, fname="prog.bloch", extra_files=None, cwd_is_dir=True, **run_kw):
    """Write `source` into a private directory, run the CLI on it, return (Result, events, qasm, dir)."""
    d = scratch_dir("run")
    path = os.path.join(d, fname)
    os.makedirs(os.path.dirname(path), exist_ok=True)
    with open(path, "w", newline="") as f:
        f.write(source)
    for name, content in (extra_files or {}).items():
        p = os.path.join(d, name)
        os.makedirs(os.path.dirname(p), exist_ok=True)
        with open(p, "w") as f:
            f.write(content)
    e = dict(env or {})
    tpath = os.path.join(d, "trace.jsonl")
    if trace:
        e["BLOCH_VERIF_TRACE"] = tpath
    if state:
        e["BLOCH_VERIF_STATE"] = state
    r = run([binary] + list(args) + [path], env=e, cwd=d, timeout=timeout, **run_kw)
    events = read_trace(tpath) if trace else []
    qasm = None
    qp = os.path.join(d, os.path.splitext(fname)[0] + ".qasm")
    if os.path.exists(qp):
        with open(qp) as f:
            qasm = f.read()
    if not keep:
        shutil.rmtree(d, ignore_errors=True)
        d = None
    return r, events, qasm, d


def pmap(fn, items, workers=16):
    items = list(items)
    if not items:
        return []
    with ThreadPoolExecutor(max_workers=workers) as ex:
        return list(ex.map(fn, items))


def case_rng(seed, prop, index):
    h = hashlib.sha256(("%s/%s/%s" % (seed, prop, index)).encode()).digest()
    return random.Random(int.from_bytes(h[:8], "big"))


def safe_key(k):
    return re.sub(r"[^A-Za-z0-9_.:=@+-]", "_", k)[:120]


class Ctx:
    def __init__(self, prop, tier, seed, level="exploration"):
        self.prop = prop
        self.tier = tier
        self.seed = seed
        self.level = level
        self.t0 = time.time()
        self.evaluations = 0
        self.distinct = set()
        self.distinct_extra = 0   # distinct cases counted by a C++ monitor (disjoint shards)
        self.replaying = False
        self.samples = []
        self.rule = ""
        self.counters = {}
        self.assumptions = []
        self.violations = {}   # key -> dict(what, replay, count)
        self.inconclusive = []
        self.extra = {}
        self.lock = threading.Lock()
        self.known = {}
        kf = os.path.join(VERIF, "known_findings.jsonl")
        if os.path.exists(kf):
            with open(kf) as f:
                for line in f:
                    line = line.strip()
                    if not line or line.startswith("#"):
                        continue
                    o = json.loads(line)
                    if o.get("status") == "known" and o.get("property") == prop:
                        self.known[o["key"]] = o

    def quick(self):
        return self.tier == "quick"

    def n(self, quick, thorough):
        return quick if self.tier == "quick" else thorough

    def rng(self, index):
        return case_rng(self.seed, self.prop, index)

    def count(self, name, k=1):
        with self.lock:
            self.counters[name] = self.counters.get(name, 0) + k

    def note_case(self, canon, nontrivial=True, sample=None):
        """Record one evaluated case; canon is hashed for distinct counting."""
        with self.lock:
            self.evaluations += 1
            if nontrivial:
                self.distinct.add(hashlib.sha1(repr(canon).encode()).digest()[:10])
            if sample is not None and len(self.samples) < 4:
                self.samples.append(sample)

    def violation(self, key, what, case=None, files=None):
        """Record a violation under `key`; writes a replay witness for the first hit of each key."""
        key = safe_key(key)
        with self.lock:
            v = self.violations.get(key)
            if v:
                v["count"] += 1
                return
            rdir = os.path.join(OUTROOT, "replay", self.prop, key)
            self.violations[key] = dict(what=what, replay=rdir, count=1)
            if self.replaying:
                return
        try:
            shutil.rmtree(rdir, ignore_errors=True)
            os.makedirs(rdir, exist_ok=True)
            with open(os.path.join(rdir, "replay.json"), "w") as f:
                json.dump(dict(property=self.prop, key=key, what=what, seed=self.seed,
                               tier=self.tier, case=case), f, indent=1, default=str)
            for name, content in (files or {}).items():
                with open(os.path.join(rdir, name), "w") as f:
                    f.write(content if isinstance(content, str) else json.dumps(content, indent=1,
                                                                                 default=str))
        except OSError:
            pass

    def inconclusive_because(self, reason):
        with self.lock:
            self.inconclusive.append(reason)

    def finish(self):
        wall = time.time() - self.t0
        unknown = {k: v for k, v in self.violations.items() if k not in self.known}
        matched = {k: v for k, v in self.violations.items() if k in self.known}
        for k, v in sorted(matched.items()):
            print("KNOWN-FINDING: property=%s %s (%s; %d case(s))" %
                  (self.prop, k, self.known[k].get("what", v["what"]), v["count"]))
        for k, v in sorted(unknown.items()):
            print("VIOLATION property=%s replay=%s key=%s what=%s" %
                  (self.prop, v["replay"], k, v["what"][:300].replace("\n", " ")))
        for r in self.inconclusive:
            print("INCONCLUSIVE property=%s reason=%s" % (self.prop, r))
        cov = dict(evaluations=self.evaluations, distinct_nontrivial=len(self.distinct) + self.distinct_extra,
                   rule=self.rule, samples=self.samples, monitors=self.counters,
                   known_findings_matched=sorted(matched), violation_keys=sorted(unknown),
                   inconclusive=self.inconclusive)
        cov.update(self.extra)
        if self.level == "translation_validation":
            cov.setdefault("programs", self.evaluations)
            cov.setdefault("disagreements_checked", self.counters.get("comparisons", 0))
        ev = dict(property_id=self.prop, tier=self.tier, seed=self.seed, level=self.level,
                  coverage=cov, assumptions=self.assumptions, wall_s=round(wall, 2),
                  violations=len(unknown))
        os.makedirs(os.path.join(OUTROOT, "evidence"), exist_ok=True)
        tmp = os.path.join(OUTROOT, "evidence", self.prop + ".json.tmp")
        with open(tmp, "w") as f:
            json.dump(ev, f, indent=1, default=str)
        os.replace(tmp, os.path.join(OUTROOT, "evidence", self.prop + ".json"))
        verdict = "violated" if unknown else ("inconclusive" if self.inconclusive else "held")
        print("[%s] %s tier=%s seed=%d evaluations=%d distinct=%d wall=%.1fs monitors=%s" %
              (self.prop, verdict, self.tier, self.seed, self.evaluations,
               len(self.distinct) + self.distinct_extra,
               wall, json.dumps(self.counters, sort_keys=True)))
        if unknown:
            return 1
        if self.inconclusive:
            return 2
        return 0
