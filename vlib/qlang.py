"""Quantum language path: generated Bloch programs + a reference model stepped in lock-step with
the recorded trace (BLOCH_VERIF_TRACE).  One IR, one renderer, one interpreter; the per-property
profiles choose what is generated and which disagreements are reported.

The model never predicts measurement outcomes: it adopts the outcome recorded in the trace and
checks everything that must follow from it (operand order, state after every operation, measured
flags, echo / tracked / table views, OpenQASM text, handle lifetimes)."""
import json
import math
import os
import re
import struct

from . import build, core, qref

TOL = 1e-9

PRELUDE = """\
class HP extends HM<int> {
    public qubit pq;
    public constructor() -> HP {
        super();
        return this;
    }
}
class HM<T> extends HC {
    public qubit mq;
    public constructor() -> HM<T> {
        super();
        return this;
    }
}
class HC {
    public qubit cq;
    public constructor() -> HC = default;
}
class H1 {
    public qubit q;
    public qubit[2] qs;
    public constructor() -> H1 = default;
}
class HF {
    public qubit fq;
    public constructor() -> HF = default;
    public function baseX() -> void {
        x(this.fq);
    }
}
class HFS extends HF {
    public qubit fq;
    public constructor() -> HFS {
        super();
        return this;
    }
    public function subH() -> void {
        h(this.fq);
    }
}
class HK {
    public qubit kq;
    public constructor() -> HK {
        H1 tmp = new H1();
        x(tmp.q);
        destroy tmp;
        return this;
    }
}
class H1S extends H1 {
    public int tag = 1;
    public constructor() -> H1S {
        super();
        return this;
    }
}
class HT {
    @tracked public qubit tq;
    public constructor() -> HT = default;
}
class HTS extends HT {
    public int tag = 1;
    public constructor() -> HTS {
        super();
        return this;
    }
}
class HDT {
    @tracked public qubit dt;
    public constructor() -> HDT = default;
    public destructor() -> void {
        x(this.dt);
        measure this.dt;
    }
}
class HA {
    @tracked public qubit[3] ta;
    public constructor() -> HA = default;
}
class HG<T> {
    @tracked public qubit gq;
    public T tag;
    public constructor() -> HG<T> = default;
}
class HD {
    public qubit dq;
    public constructor() -> HD = default;
    public destructor() -> void {
        qubit ds;
        x(ds);
        h(this.dq);
    }
}
class HS {
    public static qubit sq;
    public constructor() -> HS = default;
}
class HSB extends HS {
    public static qubit own;
    public constructor() -> HSB {
        super();
        return this;
    }
    public static function touchBase() -> void {
        x(sq);
    }
    public static function touchOwn() -> void {
        h(own);
    }
}
class H2 {
    public H1 inner;
    public qubit z;
    public constructor() -> H2 {
        this.inner = new H1();
        return this;
    }
}
class Ops {
    public constructor() -> Ops = default;
    public function mh(qubit p) -> void {
        h(p);
    }
    public function mx(qubit p) -> void {
        x(p);
    }
    public function mrz(qubit p, float t) -> void {
        rz(p, t);
    }
    public function mcx(qubit a, qubit b) -> void {
        cx(a, b);
    }
    public function mm(qubit p) -> bit {
        bit r = measure p;
        return r;
    }
}
function fh(qubit p) -> void {
    h(p);
}
function fx(qubit p) -> void {
    x(p);
}
function fy(qubit p) -> void {
    y(p);
}
function fz(qubit p) -> void {
    z(p);
}
function frx(qubit p, float t) -> void {
    rx(p, t);
}
function fry(qubit p, float t) -> void {
    ry(p, t);
}
function frz(qubit p, float t) -> void {
    rz(p, t);
}
function fcx(qubit a, qubit b) -> void {
    cx(a, b);
}
function fcxr(qubit a, qubit b) -> void {
    cx(b, a);
}
@quantum
function qh(qubit p) -> void {
    h(p);
}
@quantum
function qm(qubit p) -> bit {
    bit r = measure p;
    return r;
}
function fms(qubit p) -> void {
    measure p;
}
function freset(qubit p) -> void {
    reset p;
}
function inner2(qubit p) -> void {
    fh(p);
}
function xthen(qubit p, float t) -> float {
    x(p);
    return t;
}
function mkH1() -> H1 {
    H1 fresh = new H1();
    return fresh;
}
function mkHT() -> HT {
    return new HT();
}
function mkHA() -> HA {
    HA fresh = new HA();
    return fresh;
}
function mkHD() -> HD {
    return new HD();
}
"""


def _line_of(text, needle, nth=0):
    idx = -1
    for _ in range(nth + 1):
        idx = text.index(needle, idx + 1)
    return text.count("\n", 0, idx) + 1


# line (inside the prelude) of the built-in call reached through each helper
HELPER_LINE = {}


def _init_helper_lines():
    P = PRELUDE
    HELPER_LINE.update({
        "mh": _line_of(P, "        h(p);"), "mx": _line_of(P, "        x(p);"),
        "mrz": _line_of(P, "        rz(p, t);"), "mcx": _line_of(P, "        cx(a, b);"),
        "mm": _line_of(P, "        bit r = measure p;"),
        "fh": _line_of(P, "\n    h(p);") + 1, "fx": _line_of(P, "\n    x(p);") + 1,
        "fy": _line_of(P, "\n    y(p);") + 1, "fz": _line_of(P, "\n    z(p);") + 1,
        "frx": _line_of(P, "\n    rx(p, t);") + 1, "fry": _line_of(P, "\n    ry(p, t);") + 1,
        "frz": _line_of(P, "\n    rz(p, t);") + 1, "fcx": _line_of(P, "\n    cx(a, b);") + 1,
        "fcxr": _line_of(P, "\n    cx(b, a);") + 1,
        "qh": _line_of(P, "\n    h(p);", 1) + 1,
        "qm": _line_of(P, "\n    bit r = measure p;") + 1,
        "fms": _line_of(P, "\n    measure p;") + 1,
        "freset": _line_of(P, "\n    reset p;") + 1,
        "inner2": _line_of(P, "\n    h(p);") + 1,
        "HD.dtor": _line_of(P, "        h(this.dq);"), "HDT.dtor": _line_of(P, "        x(this.dt);"),
        "xthen": _line_of(P, "\n    x(p);", 1) + 1,
        "touchBase": _line_of(P, "        x(sq);"), "touchOwn": _line_of(P, "        h(own);"),
        "baseX": _line_of(P, "        x(this.fq);"), "subH": _line_of(P, "        h(this.fq);"),
        "HD.dtor.x": _line_of(P, "        x(ds);"),
    })


_init_helper_lines()
PRELUDE_LINES = PRELUDE.count("\n")


def f32(x):
    return struct.unpack("f", struct.pack("f", x))[0]


def fmt_float(x):
    """Render a float32-exact value as a Bloch float literal (unary minus for negatives)."""
    s = repr(float(x))
    if "e" in s or "E" in s:
        s = ("%.40f" % x).rstrip("0")      # exact: the values used are dyadic
    if "." not in s:
        s += ".0"
    if s.startswith("-"):
        return "-" + s[1:] + "f"
    return s + "f"


# ---------------------------------------------------------------------------------------------
# generation

PROFILES = {
    # weights of statement kinds
    "gates": dict(gate=14, measure=2, reset=1, new=1, destroy=1, ifbit=2, loop=2, decl=2,
                  misuse=0, alias=0, block=0, measure_reg=0),
    "measure": dict(gate=8, measure=6, reset=2, new=1, destroy=0, ifbit=2, loop=1, decl=2,
                    misuse=0, alias=0, block=2, measure_reg=2),
    "handles": dict(gate=8, measure=2, reset=1, new=5, destroy=5, ifbit=1, loop=1, decl=3,
                    misuse=0, alias=3, block=1, measure_reg=0),
    "reset": dict(gate=8, measure=3, reset=5, new=2, destroy=3, ifbit=1, loop=1, decl=2,
                  misuse=0, alias=0, block=0, measure_reg=0),
    "qasm": dict(gate=10, measure=3, reset=2, new=2, destroy=2, ifbit=2, loop=2, decl=2,
                 misuse=0, alias=0, block=1, measure_reg=1),
    "flags": dict(gate=8, measure=6, reset=4, new=1, destroy=1, ifbit=0, loop=1, decl=1,
                  misuse=3, alias=0, block=0, measure_reg=2),
    # misuse around index recycling: objects owning several qubits die, new declarations take the
    # freed indices, one of them is measured, then touched again
    "flags_recycle": dict(gate=4, measure=7, reset=2, new=4, destroy=5, ifbit=0, loop=0, decl=6,
                          misuse=5, alias=0, block=1, measure_reg=1),
    "tracked": dict(gate=6, measure=6, reset=2, new=3, destroy=2, ifbit=1, loop=3, decl=2,
                    misuse=0, alias=0, block=4, measure_reg=2),
}

NEED = {"H1": 3, "HT": 1, "H2": 4, "HA": 3, "HD": 2, "HG": 1, "H1S": 3, "HP": 3, "HTS": 1, "HDT": 1, "HFS": 2, "HK": 4}     # HD: its own qubit + the one its destructor declares     # qubits owned by an instance
REGFIELD = {"H1": ("qs", 2), "HA": ("ta", 3), "H1S": ("qs", 2)}   # the qubit[] field of a class

ANGLES = [0.5, -0.5, 1.5, 0.25, 3.0, -2.75, 0.125, 6.25, 0.0, 1.0, -1.0, 0.0078125, 100.5,
          2.0, 0.75, -3.140625,
          # tiny but not negligible: 2^-19, and float32(2*pi) whose half-angle sine is ~9e-8
          1.9073486328125e-06, 6.2831854820251465, 7.62939453125e-06]


class Gen:
    def __init__(self, rng, profile, max_qubits=6):
        self.r = rng
        self.p = profile
        self.w = PROFILES[profile]
        self.max_qubits = max_qubits
        self.nq = 1            # qubits allocated so far (upper bound on simulator size)
        self.uid = 0
        self.scopes = [dict(vars=[], regs=[], objs=[], bits=[], aliases=[])]
        self.has_ops = False
        self.kvars = {}
        self.pm = set()        # logical keys of qubits that may be measured at this point
        self.alias_of = {}

    def fresh(self, pre):
        self.uid += 1
        return "%s%d" % (pre, self.uid)

    # every name visible in the current scope chain
    def visible(self, kind):
        out = []
        for s in self.scopes:
            out.extend(s[kind])
        return out

    def qrefs(self, in_loop=None):
        """All qubit references currently nameable: list of (qref, logical key)."""
        out = []
        for v in self.visible("vars"):
            out.append(("v", v))
        for v in self.visible("aliases"):
            out.append(("v", v))
        for name, n in self.visible("regs"):
            for i in range(n):
                form = self.r.choice("ckx")
                out.append(("e", name, i, form))
        out.append(("s", "HS", "sq"))       # the class-level qubits, allocated before main starts
        out.append(("s", "HSB", "own"))
        for name, cls in self.visible("objs"):
            if cls in ("H1", "H1S"):
                out.append(("f", name, "q"))
                out.append(("fe", name, "qs", 0))
                out.append(("fe", name, "qs", 1))
            elif cls == "HP":
                out.append(("f", name, "cq"))
                out.append(("f", name, "mq"))
                out.append(("f", name, "pq"))
            elif cls in ("HT", "HTS"):
                out.append(("f", name, "tq"))
            elif cls == "HDT":
                out.append(("f", name, "dt"))
            elif cls == "HFS":
                out.append(("f", name, "fq"))          # the subclass's own fq (the variable is HFS-typed)
            elif cls == "HK":
                out.append(("f", name, "kq"))
            elif cls == "HA":
                for i in range(3):
                    out.append(("fe", name, "ta", i))
            elif cls == "HD":
                out.append(("f", name, "dq"))
            elif cls == "HG":
                out.append(("f", name, "gq"))
            elif cls == "H2":
                out.append(("f", name, "z"))
                out.append(("ff", name, "inner", "q"))
        return out

    def key_of(self, q):
        t = q[0]
        if t == "v":
            return self.alias_of.get(q[1], ("v", q[1]))
        if t == "e":
            return ("r", q[1], q[2])
        if t == "ei":
            return ("r", q[1], "*")
        if t == "s":
            return ("s", q[1], q[2])
        if t == "f":
            return ("o", q[1], q[2])
        if t == "fb":
            return ("o", q[1], "base." + q[2])
        if t == "fe":
            return ("o", q[1], q[2], q[3])
        return ("o", q[1], q[2], q[3])

    def pick_q(self, k=1, allow_measured=False):
        refs = self.qrefs()
        if not (allow_measured or getattr(self, "misusing", False)):
            refs = [q for q in refs if self.key_of(q) not in self.pm]
        # distinct underlying qubits
        seen, uniq = set(), []
        self.r.shuffle(refs)
        for q in refs:
            kq = self.key_of(q)
            if kq in seen:
                continue
            seen.add(kq)
            uniq.append(q)
        if len(uniq) < k:
            return None
        return uniq[:k]

    def stmt_decl(self, force_single=False, tracked=None):
        if self.nq >= self.max_qubits:
            return None
        if tracked is None:
            tracked = self.r.random() < (0.6 if self.p in ("tracked", "measure") else 0.15)
        if force_single or self.r.random() < 0.6 or self.max_qubits - self.nq < 2:
            name = self.fresh("a")
            self.scopes[-1]["vars"].append(name)
            self.nq += 1
            return dict(k="decl", name=name, n=None, tracked=tracked)
        n = self.r.randint(2, min(3, self.max_qubits - self.nq))
        name = self.fresh("r")
        self.scopes[-1]["regs"].append((name, n))
        self.nq += n
        return dict(k="decl", name=name, n=n, tracked=tracked)

    def stmt_new(self):
        cls = self.r.choice(["H1", "H1S", "H2", "HT", "HA", "HG", "HP", "HTS"] if self.p != "tracked" else
                            ["HT", "HTS", "HA", "H1", "HG", "HG", "HTS", "HDT"])
        if self.p in ("measure",) and self.r.random() < 0.3:
            cls = self.r.choice(["HDT", "HTS"])
        if self.p in ("reset", "handles") and self.r.random() < 0.45:
            cls = self.r.choice(["H1S", "H1S", "HP", "HFS", "HK"])     # qubits inherited from a base class, ...
        if self.p in ("flags", "flags_recycle") and self.r.random() < 0.4:
            cls = "HD"     # its destructor applies a gate to its qubit: a measured dq makes the death itself a misuse
        elif self.p in ("handles", "reset", "qasm") and self.r.random() < 0.2:
            cls = "HD"     # (never measured in these profiles) its destructor also declares a qubit of its own
        need = NEED[cls]
        if self.nq + need > self.max_qubits + 2:
            cls, need = "HT", 1
            if self.nq + need > self.max_qubits + 2:
                return None
        name = self.fresh("o")
        self.scopes[-1]["objs"].append((name, cls))
        self.nq += need
        # through a factory function: the object travels through the interpreter's return slot
        via = "func" if cls in ("H1", "HT", "HA", "HD") and self.r.random() < 0.35 else "new"
        if cls == "H1S" and self.r.random() < 0.5:
            via = "base"       # held through a variable of the base class: H1 o = new H1S();
        return dict(k="new", name=name, cls=cls, via=via)

    def stmt_destroy(self):
        objs = self.scopes[-1]["objs"]
        if not objs:
            return None
        name, cls = self.r.choice(objs)
        objs.remove((name, cls))
        # destroyed qubits are recycled by later allocations
        self.nq -= NEED[cls] - (1 if cls == "HD" else 0)    # the destructor's own qubit stays allocated
        return dict(k="destroy", name=name)

    def stmt_alias(self):
        # copy a qubit handle out of an object: `qubit a = o.q;` (allocates a spare qubit too)
        cands = [q for q in self.qrefs() if q[0] in ("f", "fe", "ff")]
        if not cands or self.nq >= self.max_qubits + 2:
            return None
        name = self.fresh("al")
        src = self.r.choice(cands)
        self.scopes[-1]["aliases"].append(name)
        self.alias_of[name] = self.key_of(src)
        self.nq += 1
        return dict(k="alias", name=name, src=src)

    def stmt_gate(self):
        g = self.r.choice(["h", "x", "y", "z", "rx", "ry", "rz", "cx", "cx", "h", "ry"])
        # (which fq a base-class method means when the subclass re-declares the field is not documented:
        # HF.baseX() is never called; the subclass's own accesses must reach its own qubit)
        bits = self.visible("bits")
        if bits and self.r.random() < 0.15 and not getattr(self, "misusing", False):
            # a register element selected by a measured bit: r[b]
            regs = [nm for nm, sz in self.visible("regs") if sz >= 2 and
                    not any(("r", nm, i) in self.pm for i in range(sz)) and ("r", nm, "*") not in self.pm]
            if regs:
                return dict(k="gate", g=self.r.choice(["x", "h", "z"]), qs=[("ei", self.r.choice(regs), self.r.choice(bits))],
                            theta=None, via="direct")
        if self.r.random() < 0.06 and not getattr(self, "misusing", False):
            # ... or by a bit-typed local holding a literal: bit sel = 1b; x(r[sel]);
            regs = [nm for nm, sz in self.visible("regs") if sz >= 2 and
                    not any(("r", nm, i) in self.pm for i in range(sz)) and ("r", nm, "*") not in self.pm]
            if regs:
                sel = self.fresh("sel")
                return dict(k="gate", g=self.r.choice(["x", "h", "y"]), qs=[("ei", self.r.choice(regs), sel)],
                            theta=None, via="direct", pre_bit=(sel, self.r.choice([1, 1, 0])))
        if g == "cx":
            qs = self.pick_q(2)
            if not qs:
                return None
            via = self.r.choice(["direct", "direct", "func", "funcr", "method"])
            return dict(k="gate", g="cx", qs=qs, theta=None, via=via)
        qs = self.pick_q(1)
        if not qs:
            return None
        theta = None
        tform = None
        if g[0] == "r":
            theta = self.r.choice(ANGLES)
            tform = self.r.choice(["lit", "lit", "var", "expr", "neg"])
            if self.r.random() < 0.12:
                # a computed angle that no float32 holds: the product of two float literals is a double
                a, b = f32(self.r.choice([123.456, 10.3, 2.7, 57.29])), f32(self.r.choice([21.0, 7.7, 3.3, -11.9]))
                return dict(k="gate", g=g, qs=qs, theta=a * b, tprod=(a, b), tform="prod", via="direct")
        vias = ["direct", "direct", "func"]
        if g == "h":
            vias += ["qfunc", "method", "nested"]
        if g == "x":
            vias += ["method"]
        if g == "rz":
            vias += ["method"]
        if g[0] == "r" and self.r.random() < 0.15 and not getattr(self, "misusing", False):
            # the angle operand is a call that applies a gate to another qubit on the way
            other = self.pick_q(2)
            if other and self.key_of(other[1]) != self.key_of(qs[0]):
                return dict(k="gate", g=g, qs=[qs[0]], theta=theta, tform="lit", via="direct", angle_via=other[1] if
                            self.key_of(other[1]) != self.key_of(qs[0]) else other[0])
        if qs[0][0] == "f" and qs[0][2] == "fq" and self.r.random() < 0.5:
            g, theta, tform, vias = "h", None, None, ["subh"]
        if qs[0] == ("s", "HS", "sq") and g == "x" and self.r.random() < 0.6:
            vias = ["sbase"]      # a base-class static qubit named bare inside a subclass's static method
        if qs[0] == ("s", "HSB", "own") and g == "h" and self.r.random() < 0.6:
            vias = ["sown"]
        return dict(k="gate", g=g, qs=qs, theta=theta, tform=tform, via=self.r.choice(vias))

    def stmt_measure(self):
        qs = self.pick_q(1)
        if not qs:
            return None
        if not getattr(self, "misusing", False) and self.p not in ("flags", "flags_recycle") and \
                qs[0][0] == "f" and qs[0][2] in ("dq", "dt"):
            return None       # HD's / HDT's destructor touches the qubit: measured, its death would stop the run
        form = self.r.choice(["stmt", "expr", "expr", "qfunc", "fstmt", "method", "echoexpr"])
        bit = None
        if form in ("expr", "qfunc", "method"):
            bit = self.fresh("b")
            self.scopes[-1]["bits"].append(bit)
        self.pm.add(self.key_of(qs[0]))
        return dict(k="measure", q=qs[0], form=form, bit=bit)

    def stmt_measure_reg(self):
        regs = self.visible("regs")
        objs = [o for o in self.visible("objs") if o[1] in REGFIELD]
        cands = [("reg", n) for n, _ in regs] + [("freg", n) for n, _ in objs]
        if not cands:
            return None
        kind, name = self.r.choice(cands)
        if kind == "reg":
            n = dict(regs)[name]
            keys = [("r", name, i) for i in range(n)]
        else:
            fld, n = REGFIELD[dict(objs)[name]]
            keys = [("o", name, fld, i) for i in range(n)]
        if not getattr(self, "misusing", False) and any(k in self.pm for k in keys):
            return None
        self.pm.update(keys)
        return dict(k="measure_reg", kind=kind, name=name, field=fld if kind != "reg" else None)

    def stmt_reset(self):
        qs = self.pick_q(1, allow_measured=True)
        if not qs:
            return None
        # prefer giving a measured qubit back
        meas = [q for q in self.qrefs() if self.key_of(q) in self.pm]
        if meas and self.r.random() < 0.7:
            qs = [self.r.choice(meas)]
        self.pm.discard(self.key_of(qs[0]))
        return dict(k="reset", q=qs[0], via=self.r.choice(["direct", "direct", "func"]))

    def stmt_ifbit(self, depth):
        bits = self.visible("bits")
        if not bits:
            return None
        bit = self.r.choice(bits)
        before = set(self.pm)
        self.scopes.append(dict(vars=[], regs=[], objs=[], bits=[], aliases=[]))
        then = self.body(self.r.randint(1, 3), depth + 1, inner=True)
        self.scopes.pop()
        after_then = set(self.pm)
        self.pm = set(before)
        els = None
        if self.r.random() < 0.5:
            self.scopes.append(dict(vars=[], regs=[], objs=[], bits=[], aliases=[]))
            els = self.body(self.r.randint(1, 2), depth + 1, inner=True)
            self.scopes.pop()
        self.pm = before | after_then | self.pm
        return dict(k="if", bit=bit, then=then, els=els, neg=self.r.random() < 0.3)

    def stmt_loop(self, depth):
        n = self.r.randint(2, 3)
        var = self.fresh("i")
        self.scopes.append(dict(vars=[], regs=[], objs=[], bits=[], aliases=[]))
        body = []
        # loop-scoped tracked qubit (k exits per shot) in the tracked profile
        if self.p in ("tracked",) and self.r.random() < 0.7 and self.nq + n <= 11:
            self.nq += n   # one fresh qubit per iteration (locals are never released)
            name = self.fresh("lt")
            self.scopes[-1]["vars"].append(name)
            body.append(dict(k="decl", name=name, n=None, tracked=True, in_loop=True))
            body.append(dict(k="gate", g="h", qs=[("v", name)], theta=None, via="direct"))
            body.append(dict(k="measure", q=("v", name), form="stmt", bit=None))
            self.pm.add(("v", name))
        regs = [(nm, sz) for nm, sz in self.visible("regs") if sz >= n and
                (not any(("r", nm, i) in self.pm for i in range(sz)))]
        if regs and self.r.random() < 0.7:
            nm, _ = self.r.choice(regs)
            g = self.r.choice(["h", "x", "ry"])
            body.append(dict(k="gate", g=g, qs=[("ei", nm, var)],
                             theta=0.5 if g == "ry" else None, tform="lit", via="direct"))
        else:
            s = self.stmt_gate()
            if s:
                body.append(s)
        self.scopes.pop()
        if not body:
            return None
        return dict(k="for", var=var, count=n, body=body, form=self.r.choice(["for", "while"]))

    def stmt_block(self, depth):
        self.scopes.append(dict(vars=[], regs=[], objs=[], bits=[], aliases=[]))
        saved = self.nq
        body = []
        d = self.stmt_decl(tracked=True)
        if d:
            body.append(d)
        body += self.body(self.r.randint(1, 4), depth + 1, inner=True)
        self.scopes.pop()
        # block-local qubits are never released by the runtime: they still count
        return dict(k="block", body=body) if body else None

    def stmt_qassign(self):
        """a = b;  for qubit handles: from now on 'a' denotes b's qubit (its own stays allocated, unreachable);
        a @tracked 'a' still reports at its scope exit - the outcome of the qubit it denotes then."""
        dsts = [v for v in self.visible("vars") if not v.startswith("lt") and v not in self.alias_of]
        if not dsts:
            return None
        dst = self.r.choice(dsts)
        srcs = [q for q in self.qrefs() if q[0] in ("v", "e") and self.key_of(q) != self.key_of(("v", dst))
                and not (q[0] == "v" and q[1] in self.visible("aliases"))]
        if not srcs:
            return None
        src = self.r.choice(srcs)
        self.alias_of[dst] = self.key_of(src)
        return dict(k="qassign", dst=dst, src=src)

    def stmt_misuse(self):
        # an operation on a qubit; whether it is legal is decided by the model at run time
        self.misusing = True
        try:
            return self.r.choice([self.stmt_gate, self.stmt_measure, self.stmt_measure, self.stmt_measure_reg])()
        finally:
            self.misusing = False

    def body(self, count, depth, inner=False):
        out = []
        kinds = [k for k, w in self.w.items() for _ in range(w)]
        for _ in range(count):
            k = self.r.choice(kinds)
            if depth >= 2 and k in ("ifbit", "loop", "block"):
                k = "gate"
            if inner and k in ("new", "destroy", "alias"):
                k = "gate"
            s = None
            if k == "decl" and self.p in ("tracked", "measure", "gates") and self.r.random() < 0.25 and not inner:
                k = "qassign"
            if k == "qassign":
                s = self.stmt_qassign()
            elif k == "gate":
                s = self.stmt_gate()
            elif k == "measure":
                s = self.stmt_measure()
            elif k == "reset":
                s = self.stmt_reset()
            elif k == "new":
                s = self.stmt_new()
            elif k == "destroy":
                s = self.stmt_destroy()
            elif k == "ifbit":
                s = self.stmt_ifbit(depth)
            elif k == "loop":
                s = self.stmt_loop(depth)
            elif k == "decl":
                s = self.stmt_decl()
            elif k == "alias":
                s = self.stmt_alias()
            elif k == "block":
                s = self.stmt_block(depth)

            elif k == "misuse":
                s = self.stmt_misuse()
            elif k == "measure_reg":
                s = self.stmt_measure_reg()
            if s:
                out.append(s)
                if s["k"] == "measure" and s.get("bit") and self.r.random() < 0.8:
                    out.append(dict(k="echo_bit", bit=s["bit"]))
        return out

    def program(self, length):
        ir = []
        ir.append(dict(k="ops"))  # Ops u = new Ops();
        for _ in range(self.r.randint(1, 2)):
            d = self.stmt_decl()
            if d:
                ir.append(d)
        if self.p in ("handles", "reset", "qasm", "tracked") and self.r.random() < 0.7:
            s = self.stmt_new()
            if s:
                ir.append(s)
        ir += self.body(length, 0)
        return ir


# ---------------------------------------------------------------------------------------------
# rendering

def render_qref(q):
    t = q[0]
    if t == "v":
        return q[1]
    if t == "e":
        _, reg, i, form = q
        if form == "c":
            return "%s[%d]" % (reg, i)
        if form == "k":
            return "%s[k%d]" % (reg, i)
        return "%s[%d + k1 - 1]" % (reg, i)
    if t == "ei":
        return "%s[%s]" % (q[1], q[2])
    if t in ("f", "s", "fb"):
        return "%s.%s" % (q[1], q[2])
    if t == "fe":
        return "%s.%s[%d]" % (q[1], q[2], q[3])
    if t == "ff":
        return "%s.%s.%s" % (q[1], q[2], q[3])
    raise ValueError(q)


class Renderer:
    def __init__(self, shots_annotation=None):
        self.lines = []
        self.shots_annotation = shots_annotation

    def emit(self, indent, text, node=None, key="line"):
        self.lines.append("    " * indent + text)
        if node is not None:
            node[key] = PRELUDE_LINES + len(self.lines)

    def theta_src(self, s):
        th = s["theta"]
        form = s.get("tform") or "lit"
        if form == "lit":
            return fmt_float(th)
        if form == "var":
            return "tv" if False else fmt_float(th)
        if form == "expr":
            return "%s * 2.0f" % fmt_float(th / 2.0)
        if form == "prod":
            a, b = s["tprod"]
            return "%s * %s" % (fmt_float(a), "(%s)" % fmt_float(b) if b < 0 else fmt_float(b))
        if form == "neg":
            return "-(%s)" % fmt_float(-th) if th != 0 else "0.0f"
        return fmt_float(th)

    def stmt(self, s, ind):
        k = s["k"]
        if k == "ops":
            self.emit(ind, "Ops u = new Ops();", s)
            self.emit(ind, "int k0 = 0;")
            self.emit(ind, "int k1 = 1;")
            self.emit(ind, "int k2 = 2;")
        elif k == "decl":
            t = "@tracked " if s["tracked"] else ""
            if s["n"] is None:
                self.emit(ind, "%squbit %s;" % (t, s["name"]), s)
            else:
                self.emit(ind, "%squbit[%d] %s;" % (t, s["n"], s["name"]), s)
        elif k == "new":
            if s.get("via") == "func":
                self.emit(ind, "%s %s = mk%s();" % (s["cls"], s["name"], s["cls"]), s)
            elif s.get("via") == "base":
                self.emit(ind, "H1 %s = new H1S();" % s["name"], s)
            elif s["cls"] == "HG":
                # a generic specialisation owning a @tracked qubit; the diamond form every other time
                self.emit(ind, "HG<int> %s = new HG<%s>();" % (s["name"], "int" if len(s["name"]) % 2 else ""), s)
            else:
                self.emit(ind, "%s %s = new %s();" % (s["cls"], s["name"], s["cls"]), s)
        elif k == "qassign":
            self.emit(ind, "%s = %s;" % (s["dst"], render_qref(s["src"])), s)
        elif k == "destroy":
            self.emit(ind, "destroy %s;" % s["name"], s)
        elif k == "alias":
            self.emit(ind, "qubit %s = %s;" % (s["name"], render_qref(s["src"])), s)
        elif k == "gate":
            g, via = s["g"], s["via"]
            if s.get("pre_bit"):
                self.emit(ind, "bit %s = %db;" % s["pre_bit"])
            args = [render_qref(q) for q in s["qs"]]
            if s["theta"] is not None:
                args.append(self.theta_src(s))
                if s.get("angle_via"):
                    args[-1] = "xthen(%s, %s)" % (render_qref(s["angle_via"]), args[-1])
            a = ", ".join(args)
            if via == "direct":
                self.emit(ind, "%s(%s);" % (g, a), s)
            elif via == "func":
                self.emit(ind, "f%s(%s);" % (g, a), s)
            elif via == "funcr":
                self.emit(ind, "fcxr(%s, %s);" % (args[1], args[0]), s)
            elif via == "qfunc":
                self.emit(ind, "qh(%s);" % a, s)
            elif via == "nested":
                self.emit(ind, "inner2(%s);" % a, s)
            elif via == "method":
                self.emit(ind, "u.m%s(%s);" % (g, a), s)
            elif via == "basex":
                self.emit(ind, "%s.baseX();" % s["qs"][0][1], s)
            elif via == "subh":
                self.emit(ind, "%s.subH();" % s["qs"][0][1], s)
            elif via == "sbase":
                self.emit(ind, "HSB.touchBase();", s)
            elif via == "sown":
                self.emit(ind, "HSB.touchOwn();", s)
        elif k == "measure":
            q = render_qref(s["q"])
            f = s["form"]
            if f == "stmt":
                self.emit(ind, "measure %s;" % q, s)
            elif f == "expr":
                self.emit(ind, "bit %s = measure %s;" % (s["bit"], q), s)
            elif f == "qfunc":
                self.emit(ind, "bit %s = qm(%s);" % (s["bit"], q), s)
            elif f == "method":
                self.emit(ind, "bit %s = u.mm(%s);" % (s["bit"], q), s)
            elif f == "fstmt":
                self.emit(ind, "fms(%s);" % q, s)
            elif f == "echoexpr":
                self.emit(ind, "echo(measure %s);" % q, s)    # the argument of echo has an effect
        elif k == "measure_reg":
            if s["kind"] == "reg":
                self.emit(ind, "measure %s;" % s["name"], s)
            else:
                self.emit(ind, "measure %s.%s;" % (s["name"], s.get("field") or "qs"), s)
        elif k == "reset":
            if s["via"] == "direct":
                self.emit(ind, "reset %s;" % render_qref(s["q"]), s)
            else:
                self.emit(ind, "freset(%s);" % render_qref(s["q"]), s)
        elif k == "echo_bit":
            self.emit(ind, "echo(%s);" % s["bit"], s)
        elif k == "if":
            cond = s["bit"] if not s["neg"] else "!%s" % s["bit"]
            self.emit(ind, "if (%s) {" % cond, s)
            for t in s["then"]:
                self.stmt(t, ind + 1)
            if s["els"] is not None:
                self.emit(ind, "} else {")
                for t in s["els"]:
                    self.stmt(t, ind + 1)
            self.emit(ind, "}")
        elif k == "for":
            v = s["var"]
            if s["form"] == "for":
                self.emit(ind, "for (int %s = 0; %s < %d; %s = %s + 1) {" % (v, v, s["count"], v, v),
                          s)
                for t in s["body"]:
                    self.stmt(t, ind + 1)
                self.emit(ind, "}")
            else:
                self.emit(ind, "int %s = 0;" % v, s)
                self.emit(ind, "while (%s < %d) {" % (v, s["count"]))
                for t in s["body"]:
                    self.stmt(t, ind + 1)
                self.emit(ind + 1, "%s = %s + 1;" % (v, v))
                self.emit(ind, "}")
        elif k == "block":
            self.emit(ind, "{", s)
            for t in s["body"]:
                self.stmt(t, ind + 1)
            self.emit(ind, "}")
        else:
            raise ValueError(k)

    def render(self, ir):
        if self.shots_annotation:
            self.emit(0, "@shots(%d)" % self.shots_annotation)
        self.emit(0, "function main() -> void {")
        for s in ir:
            self.stmt(s, 1)
        self.emit(0, "}")
        if len(self.lines) % 2:
            # a declaration after main: whatever is attached to main (@shots) must survive it
            self.emit(0, "function after_main(qubit p) -> void {")
            self.emit(1, "z(p);")
            self.emit(0, "}")
        return PRELUDE + "\n".join(self.lines) + "\n"


def views_ir(rng):
    """Directed programs for 'all views of a measurement agree': every kind of @tracked owner (variable,
    register, object field, object register field) is prepared in a random basis pattern, measured
    element-wise or as a register, echoed, and then dies by scope exit or destroy."""
    ir = [dict(k="ops")]
    uid = [0]

    def fresh(p):
        uid[0] += 1
        return "%s%d" % (p, uid[0])

    def owner_block():
        kind = rng.choice(["var", "reg", "HT", "HA", "HA", "H1", "HDT", "HTS"])
        body = []
        if kind == "var":
            n = fresh("t")
            body.append(dict(k="decl", name=n, n=None, tracked=True))
            refs, whole = [("v", n)], None
        elif kind == "reg":
            n, size = fresh("r"), rng.randint(2, 3)
            body.append(dict(k="decl", name=n, n=size, tracked=True))
            refs, whole = [("e", n, i, "c") for i in range(size)], ("reg", n, None)
        else:
            n = fresh("o")
            body.append(dict(k="new", name=n, cls=kind, via=rng.choice(["new", "func"]) if kind in ("H1", "HT", "HA") else "new"))
            if kind in ("HT", "HTS"):
                refs, whole = [("f", n, "tq")], None
            elif kind == "HDT":
                # measured by its own destructor only: the tracked record must show that last outcome
                if rng.random() < 0.5:
                    body.append(dict(k="gate", g="x", via="direct", qs=[("f", n, "dt")], theta=None))
                if rng.random() < 0.5:
                    body.append(dict(k="destroy", name=n))
                return dict(k="block", body=body)
            elif kind == "HA":
                refs, whole = [("fe", n, "ta", i) for i in range(3)], ("freg", n, "ta")
            else:
                refs, whole = [("fe", n, "qs", i) for i in range(2)], ("freg", n, "qs")
        for q in refs:
            if rng.random() < 0.5:
                body.append(dict(k="gate", g="x", via=rng.choice(["direct", "func"]), qs=[q], theta=None))
        if whole and rng.random() < 0.5:
            body.append(dict(k="measure_reg", kind=whole[0], name=whole[1], field=whole[2]))
        else:
            order = list(refs)
            rng.shuffle(order)
            for q in order[:rng.randint(max(1, len(order) - 1), len(order))]:
                form = rng.choice(["stmt", "expr", "echoexpr", "qfunc"])
                b = fresh("b") if form in ("expr", "qfunc") else None
                body.append(dict(k="measure", q=q, form=form, bit=b))
                if b:
                    body.append(dict(k="echo_bit", bit=b))
        if kind in ("HT", "HTS", "HA", "H1") and rng.random() < 0.5:
            body.append(dict(k="destroy", name=n))
        return dict(k="block", body=body)
    for _ in range(rng.randint(2, 4)):
        ir.append(owner_block())
    return ir


def releases_ir(rng):
    """Directed programs for the implicit resets: objects of every qubit-owning class are put into basis or
    superposition states, partly measured, and die (destroy, block exit, end of main); the indices they
    free are taken by new declarations and objects, which are measured right away."""
    ir = [dict(k="ops")]
    uid = [0]

    def fresh(p):
        uid[0] += 1
        return "%s%d" % (p, uid[0])
    FIELDS = {"H1": [("f", "q"), ("fe", "qs", 0), ("fe", "qs", 1)], "H1S": [("f", "q"), ("fe", "qs", 0), ("fe", "qs", 1)],
              "HT": [("f", "tq")], "HA": [("fe", "ta", 0), ("fe", "ta", 1), ("fe", "ta", 2)],
              "HP": [("f", "cq"), ("f", "mq"), ("f", "pq")], "HG": [("f", "gq")]}

    def life(depth):
        cls = rng.choice(sorted(FIELDS))
        n = fresh("o")
        body = [dict(k="new", name=n, cls=cls, via=rng.choice(["new", "new", "func"]) if cls in ("H1", "HT", "HA") else "new")]
        refs = [(f[0], n) + tuple(f[1:]) for f in FIELDS[cls]]
        for q in refs:
            g = rng.choice(["x", "x", "h", None])
            if g:
                body.append(dict(k="gate", g=g, via="direct", qs=[q], theta=None))
        if len(refs) > 1 and rng.random() < 0.4:
            body.append(dict(k="gate", g="cx", via="direct", qs=[refs[0], refs[1]], theta=None))
        for q in refs:
            if rng.random() < 0.5:
                b = fresh("b")
                body.append(dict(k="measure", q=q, form=rng.choice(["stmt", "expr"]), bit=None))
                body[-1]["bit"] = b if body[-1]["form"] == "expr" else None
        if rng.random() < 0.6:
            body.append(dict(k="destroy", name=n))
        return dict(k="block", body=body) if depth or rng.random() < 0.5 else body

    for _ in range(rng.randint(2, 4)):
        x = life(0)
        ir += x if isinstance(x, list) else [x]
        # whoever gets the freed indices must find them in |0>
        if rng.random() < 0.7:
            v = fresh("a")
            ir.append(dict(k="decl", name=v, n=None, tracked=False))
            ir.append(dict(k="measure", q=("v", v), form="expr", bit=fresh("b")))
            ir.append(dict(k="echo_bit", bit=ir[-1]["bit"]))
    return ir


def recycle_ir(rng):
    """Directed programs for measured-qubit refusal around index recycling: an object owning several qubits
    dies, its indices are handed to new declarations one by one; one of them is measured, others are
    declared and used, then the measured one is touched again (with or without a reset in between)."""
    ir = [dict(k="ops")]
    uid = [0]

    def fresh(p):
        uid[0] += 1
        return "%s%d" % (p, uid[0])
    cls = rng.choice(["H1", "HA", "HP", "H1S", "H1"])
    o = fresh("o")
    ir.append(dict(k="new", name=o, cls=cls, via="new"))
    if rng.random() < 0.5:
        fld = {"H1": ("f", o, "q"), "H1S": ("f", o, "q"), "HA": ("fe", o, "ta", 1), "HP": ("f", o, "mq")}[cls]
        ir.append(dict(k="gate", g="x", via="direct", qs=[fld], theta=None))
        if rng.random() < 0.5:
            ir.append(dict(k="measure", q=fld, form="stmt", bit=None))
    if rng.random() < 0.3:
        keep = fresh("kp")
        ir.append(dict(k="decl", name=keep, n=None, tracked=False))
    ir.append(dict(k="destroy", name=o))
    names = []
    for i in range(rng.randint(2, 3)):
        v = fresh("a")
        names.append(v)
        ir.append(dict(k="decl", name=v, n=None, tracked=rng.random() < 0.3))
        if i == 0 or rng.random() < 0.4:
            if rng.random() < 0.6:
                ir.append(dict(k="gate", g="x", via=rng.choice(["direct", "func"]), qs=[("v", v)], theta=None))
            ir.append(dict(k="measure", q=("v", v), form=rng.choice(["stmt", "expr", "qfunc"]), bit=None))
            if ir[-1]["form"] != "stmt":
                ir[-1]["bit"] = fresh("b")
        else:
            ir.append(dict(k="gate", g=rng.choice(["h", "x"]), via="direct", qs=[("v", v)], theta=None))
    for v in rng.sample(names, len(names)):
        if rng.random() < 0.3:
            ir.append(dict(k="reset", q=("v", v), via="direct"))
        g = rng.choice(["h", "x", "z"])
        ir.append(dict(k="gate", g=g, via=rng.choice(["direct", "func"] + (["method"] if g != "z" else [])),
                       qs=[("v", v)], theta=None))
    return ir


def regslots_ir(rng):
    """Directed programs for gate addressing: registers whose elements sit on recycled, non-consecutive
    simulator slots (objects owning qubits were destroyed before, plain qubits declared in between), with a
    gate on every element through every index form, then the whole register measured."""
    ir = [dict(k="ops")]
    uid = [0]

    def fresh(p):
        uid[0] += 1
        return "%s%d" % (p, uid[0])
    objs = []
    for _ in range(rng.randint(1, 2)):
        o = fresh("o")
        objs.append(o)
        ir.append(dict(k="new", name=o, cls=rng.choice(["H1", "HA", "HP", "HT", "H1S"]), via="new"))
        if rng.random() < 0.5:
            ir.append(dict(k="decl", name=fresh("a"), n=None, tracked=False))
    rng.shuffle(objs)
    for o in objs:
        ir.append(dict(k="destroy", name=o))
        if rng.random() < 0.3:
            ir.append(dict(k="decl", name=fresh("a"), n=None, tracked=False))
    r_ = fresh("r")
    n = rng.randint(2, 3)
    ir.append(dict(k="decl", name=r_, n=n, tracked=rng.random() < 0.5))
    idxs = list(range(n))
    rng.shuffle(idxs)
    for i in idxs:
        g = rng.choice(["x", "x", "h", "y", "ry", "rz", "rx"])
        if g[0] == "r":
            # a double-valued angle far from zero: the product of two float literals
            a, b = f32(rng.choice([123.456, 10.3, 57.29, 8191.7])), f32(rng.choice([21.0, 7.7, -11.9, 8193.3]))
            ir.append(dict(k="gate", g=g, via="direct", qs=[("e", r_, i, rng.choice("ckx"))], theta=a * b, tprod=(a, b),
                           tform="prod"))
            continue
        ir.append(dict(k="gate", g=g, via=rng.choice(["direct", "func"]), qs=[("e", r_, i, rng.choice("ckx"))],
                       theta=None, tform="lit"))
    if n >= 2 and rng.random() < 0.6:
        a, b = rng.sample(range(n), 2)
        ir.append(dict(k="gate", g="cx", via="direct", qs=[("e", r_, a, "c"), ("e", r_, b, "k")], theta=None))
    if rng.random() < 0.7:
        ir.append(dict(k="measure_reg", kind="reg", name=r_, field=None))
    else:
        for i in range(n):
            b = fresh("b")
            ir.append(dict(k="measure", q=("e", r_, i, "c"), form="expr", bit=b))
            ir.append(dict(k="echo_bit", bit=b))
    return ir


def generate(rng, profile, length=None, shots_annotation=None, max_qubits=6):
    if profile == "regslots":
        ir = regslots_ir(rng)
        return ir, Renderer(shots_annotation).render(ir)
    if profile == "recycle":
        ir = recycle_ir(rng)
        return ir, Renderer(shots_annotation).render(ir)
    if profile == "releases":
        ir = releases_ir(rng)
        return ir, Renderer(shots_annotation).render(ir)
    if profile == "views":
        ir = views_ir(rng)
        return ir, Renderer(shots_annotation).render(ir)
    g = Gen(rng, profile, max_qubits=max_qubits)
    ir = g.program(length if length is not None else rng.randint(6, 18))
    src = Renderer(shots_annotation).render(ir)
    return ir, src


# ---------------------------------------------------------------------------------------------
# the reference model, stepped against the trace

class Mismatch(Exception):
    def __init__(self, prop, key, what):
        Exception.__init__(self, what)
        self.prop, self.key, self.what = prop, key, what


class StopRun(Exception):
    """The model expects the program to stop here with a runtime error."""
    def __init__(self, line, reason):
        Exception.__init__(self, reason)
        self.line, self.reason = line, reason


class Instance:
    def __init__(self, cls):
        self.cls = cls
        self.refs = 1
        self.q = {}       # field name -> sim index or list of indices
        self.inner = None
        self.dead = False

    def all_indices(self):
        out = []
        for v in self.q.values():
            out.extend(v if isinstance(v, list) else [v])
        if self.inner:
            out.extend(self.inner.all_indices())
        return out


class Model:
    """Interprets the IR while consuming the events of ONE execution of the trace."""

    def __init__(self, events, strict_state=True, notes=None):
        self.ev = [e for e in events if e["k"] in ("sim", "state", "qalloc", "qfree", "echo",
                                                   "tracked", "flags", "gc")]
        self.pos = 0
        self.state = qref.State()
        self.scopes = [dict()]       # name -> ('q', idx) | ('reg', [idx]) | ('obj', Instance) | ('bit', v) | ('int', v)
        self.measured = set()         # sim indices currently measured (model)
        self.last = {}                # sim index -> last outcome (cleared by reset)
        self.live = {}                # sim index -> description of the reachable handle
        self.findings = []            # (prop, key, what)
        self.echoes = []              # expected echo texts
        self.tracked = []             # expected tracked records (key, outcome)
        self.sim_ops = []             # every sim event consumed, in order
        self.strict_state = strict_state
        self.counts = dict(ops=0, states=0, measures=0, resets=0, allocs=0, recycled=0,
                           frees=0, tracked=0, echoes=0, branches=0)
        self.tracked_scopes = [[]]    # per scope: list of (key, indices)
        self.freed = set()

    # -- event plumbing
    def report(self, prop, key, what):
        self.findings.append((prop, key, what))

    def next_event(self, kinds):
        while self.pos < len(self.ev):
            e = self.ev[self.pos]
            if e["k"] == "flags":
                self.report("C06", "flag:disagree", "evaluator/simulator measured flags disagree "
                            "for q[%d]: eval=%d sim=%d" % (e["idx"], e["eval"], e["sim"]))
                self.pos += 1
                continue
            if e["k"] in ("gc",):
                self.pos += 1
                continue
            if e["k"] == "state" and "state" not in kinds:
                self.pos += 1
                continue
            if e["k"] in kinds:
                self.pos += 1
                return e
            return None
        return None

    def peek_kind(self):
        p = self.pos
        while p < len(self.ev) and self.ev[p]["k"] in ("flags", "gc", "state"):
            p += 1
        return self.ev[p] if p < len(self.ev) else None

    def check_state(self, what):
        e = None
        if self.pos < len(self.ev) and self.ev[self.pos]["k"] == "state":
            e = self.ev[self.pos]
            self.pos += 1
        if e is None:
            return
        act = [complex(float(r), float(i)) for r, i in zip(e["re"], e["im"])]
        self.counts["states"] += 1
        n = self.state.n
        if len(act) != (1 << n):
            self.report("C03", "inv:len", "state has %d amplitudes for n=%d after %s" %
                        (len(act), n, what))
            raise Mismatch("C03", "inv:len", "length")
        if any(math.isnan(a.real) or math.isinf(a.real) or math.isnan(a.imag) or math.isinf(a.imag)
               for a in act):
            self.report("C03", "inv:nonfinite", "non-finite amplitude after %s" % what)
            raise Mismatch("C03", "inv:nonfinite", what)
        nn = sum(abs(a) ** 2 for a in act)
        if abs(nn - 1.0) > TOL:
            self.report("C03", "inv:norm", "norm^2=%r after %s" % (nn, what))
        d = qref.phase_dist(self.state.v, act)
        if d > TOL:
            kind = what.split(" ")[0]
            prop = {"measure": "C02", "reset": "C04", "alloc": "C03"}.get(kind, "C01")
            key = {"C02": "measure:collapse", "C04": "reset:state",
                   "C03": "alloc:state-changed"}.get(prop, "lang:state:" + kind)
            self.report(prop, key, "simulator state differs from the reference by %.3g after %s"
                        % (d, what))
            # adopt the implementation's state so that later comparisons isolate later ops
            self.state.v = act

    def expect_sim(self, op, q0, q1=-1, theta=None, what=""):
        e = self.next_event(("sim",))
        desc = "%s(%s%s)%s" % (op, q0, "" if q1 < 0 else "," + str(q1), what)
        if e is None:
            self.report("C01", "lang:missing-op", "no simulator operation recorded for " + desc)
            raise Mismatch("C01", "lang:missing-op", desc)
        self.sim_ops.append(e)
        self.counts["ops"] += 1
        if e["op"] != op or e["q0"] != q0 or e["q1"] != q1:
            key = "lang:operand-order" if (e["op"] == op and {e["q0"], e["q1"]} == {q0, q1}) \
                else "lang:op-mismatch"
            if e["op"] == op and key == "lang:op-mismatch":
                # the right operation on another qubit: the handle named in the program denotes a qubit
                # it was not created for
                self.report("C03", "handle:denotes-other-qubit", "program performs %s but the operation reached "
                            "simulator qubit %d%s" % (desc, e["q0"], "" if e["q1"] < 0 else ",%d" % e["q1"]))
            self.report("C01", key, "program performs %s but the simulator was asked for %s(%d%s)"
                        % (desc, e["op"], e["q0"], "" if e["q1"] < 0 else ",%d" % e["q1"]))
            raise Mismatch("C01", key, desc)
        # the angle reaches the simulator as the double the program computed (float literals are exact in it)
        if theta is not None and abs(e["theta"] - theta) > 1e-9 * max(1.0, abs(theta)):
            self.report("C01", "lang:angle", "%s reached the simulator with theta=%r" %
                        (desc, e["theta"]))
            raise Mismatch("C01", "lang:angle", desc)
        return e

    # -- name resolution
    def lookup(self, name):
        for s in reversed(self.scopes):
            if name in s:
                return s[name]
        raise KeyError(name)

    def resolve(self, q):
        t = q[0]
        if t == "v":
            return self.lookup(q[1])[1]
        if t == "e":
            return self.lookup(q[1])[1][q[2]]
        if t == "ei":
            return self.lookup(q[1])[1][self.lookup(q[2])[1]]
        if t == "s":
            return self.statics["%s.%s" % (q[1], q[2])]
        if t == "f":
            return self.lookup(q[1])[1].q[q[2]]
        if t == "fb":
            return self.lookup(q[1])[1].q["base." + q[2]]
        if t == "fe":
            return self.lookup(q[1])[1].q[q[2]][q[3]]
        if t == "ff":
            return self.lookup(q[1])[1].inner.q[q[3]]
        raise ValueError(q)

    # -- allocation
    def alloc(self, descr):
        e = self.next_event(("sim",))
        if e is None:
            raise Mismatch("C03", "alloc:missing", "no allocation recorded for " + descr)
        self.sim_ops.append(e)
        if e["op"] == "alloc":
            idx = self.state.alloc()
            if e["q0"] != idx:
                self.report("C03", "alloc:index", "fresh allocation returned index %d, expected %d"
                            % (e["q0"], idx))
            self.counts["allocs"] += 1
            self.check_state("alloc q%d" % idx)
        elif e["op"] == "reset":
            idx = e["q0"]
            self.counts["recycled"] += 1
            still_measured = idx in self.measured and idx in self.live and not self.live[idx].startswith("orphan")
            self.apply_reset(idx, e, "reuse")
            if still_measured:
                # the index is still some other declaration's qubit, and the program measured that one: from
                # the program's point of view it stays unusable until it is reset through its own name
                self.shared_measured = getattr(self, "shared_measured", set()) | {idx}
        else:
            raise Mismatch("C03", "alloc:unexpected", "expected an allocation for %s, saw %s" %
                           (descr, e["op"]))
        a = self.next_event(("qalloc",))
        if a is None or a["idx"] != idx:
            raise Mismatch("C03", "alloc:event", "allocation event missing/mismatched for " + descr)
        if idx in self.live:
            kind = self.live[idx].split(" ")[0]
            self.report("C03", "handle:live-index-reused:" + kind,
                        "allocation for %s was given simulator qubit %d, which is still reachable "
                        "as %s" % (descr, idx, self.live[idx]))
        self.live[idx] = descr
        self.freed.discard(idx)
        self.measured.discard(idx)
        self.last.pop(idx, None)
        if idx in getattr(self, "shared_measured", ()):
            self.measured.add(idx)
        return idx

    def apply_reset(self, idx, e, path):
        self.counts["resets"] += 1
        branch = e["out"]
        if branch not in (0, 1):
            # implementation did not report a branch: infer the only consistent one
            branch = 0
        w = self.state.weight(idx, branch)
        if w <= 1e-300:
            self.report("C04", "reset:branch-without-support:" + path,
                        "reset of q%d took branch %d which has weight %r" % (idx, branch, w))
            other = 1 - branch
            self.state.reset(idx, other)
        else:
            self.state.reset(idx, branch)
        self.measured.discard(idx)
        self.last.pop(idx, None)
        self.check_state("reset q%d (%s)" % (idx, path))
        if self.state.p1(idx) > TOL:
            self.report("C04", "reset:target-not-zero", "q%d not |0> after reset" % idx)

    def release(self, inst, path):
        """Object dies: every qubit field is reset and released (any order within the object)."""
        if inst.dead:
            return
        inst.dead = True
        want = set(inst.all_indices())
        tracked_expect = []
        if inst.cls == "HD":
            # the user destructor runs first: qubit ds; x(ds); h(this.dq)
            idx = inst.q["dq"]
            ds = self.alloc("destructor local ds")
            self.live.pop(ds, None)          # not reachable once the destructor returns
            self.expect_sim("x", ds, what=" [HD destructor]")
            self.state.gate("x", ds, 0.0)
            self.check_state("x q%d in destructor" % ds)
            self.op_guard(idx, HELPER_LINE["HD.dtor"], "destructor h")
            self.expect_sim("h", idx, what=" [HD destructor]")
            self.state.gate("h", idx, 0.0)
            self.check_state("h q%d in destructor" % idx)
        if inst.cls == "HDT":
            # the user destructor runs first - x(this.dt); measure this.dt; - and the tracked record of dt,
            # taken when the object is released, reports that last measurement
            idx = inst.q["dt"]
            early = self.peek_kind()
            if early is not None and early["k"] == "tracked" and early.get("key") == "HDT.dt":
                self.next_event(("tracked",))
                self.counts["tracked"] += 1
                self.report("C17", "tracked:outcome", "tracked HDT.dt recorded %r before the object's destructor had "
                            "measured the qubit: the record does not show the last measurement" % early["outcome"])
            self.op_guard(idx, HELPER_LINE["HDT.dtor"], "destructor x")
            self.expect_sim("x", idx, what=" [HDT destructor]")
            self.state.gate("x", idx, 0.0)
            self.check_state("x q%d in destructor" % idx)
            self.measure(idx)
            tracked_expect.append(("HDT.dt", self.outcome_str([idx])))
        if inst.cls in ("HT", "HTS"):
            idx = inst.q["tq"]
            tracked_expect.append(("%s.tq" % inst.cls, self.outcome_str([idx])))
        if inst.cls == "HA":
            tracked_expect.append(("HA.ta", self.outcome_str(list(inst.q["ta"]))))
        if inst.cls == "HG":
            tracked_expect.append(("HG<int>.gq", self.outcome_str([inst.q["gq"]])))
        got = set()
        while len(got) < len(want):
            e = self.next_event(("sim", "tracked"))
            if e is None:
                nxt = self.peek_kind()
                if nxt is not None and nxt["k"] == "qfree" and nxt["idx"] in want - got:
                    # released without the implicit reset: the property's "leaves q in |0>" is decidable
                    # from the reference state
                    p1 = self.state.p1(nxt["idx"])
                    if p1 > TOL:
                        self.report("C04", "reset:released-without-reset",
                                    "qubit %d of a destroyed %s was released without a reset while it is "
                                    "|1> with probability %r" % (nxt["idx"], inst.cls, p1))
                for idx in sorted(want - got):
                    if nxt is None or nxt["k"] != "qfree":
                        p1 = self.state.p1(idx)
                        if p1 > TOL:
                            self.report("C04", "reset:missing-on-destroy", "qubit %d of a destroyed %s was neither "
                                        "reset nor released; it is |1> with probability %r" % (idx, inst.cls, p1))
                            break
                self.report("C03", "release:missing", "object %s destroyed but qubits %s were not "
                            "released" % (inst.cls, sorted(want - got)))
                raise Mismatch("C03", "release:missing", path)
            if e["k"] == "tracked":
                self.match_tracked(e, tracked_expect)
                continue
            self.sim_ops.append(e)
            if e["op"] != "reset" or e["q0"] not in want or e["q0"] in got:
                for idx in sorted(want - got):
                    p1 = self.state.p1(idx)
                    if p1 > TOL:
                        self.report("C04", "reset:missing-on-destroy", "qubit %d of a destroyed %s was not reset (the "
                                    "run went on with %s q%d); it is |1> with probability %r" %
                                    (idx, inst.cls, e["op"], e["q0"], p1))
                        break
                self.report("C03", "release:unexpected", "while releasing %s saw %s q%d" %
                            (inst.cls, e["op"], e["q0"]))
                raise Mismatch("C03", "release:unexpected", path)
            idx = e["q0"]
            self.apply_reset(idx, e, "destroy")
            f = self.next_event(("qfree",))
            if f is None or f["idx"] != idx:
                raise Mismatch("C03", "release:event", "qfree missing for q%d" % idx)
            got.add(idx)
            self.counts["frees"] += 1
            self.freed.add(idx)
        if tracked_expect:
            e = self.next_event(("tracked",))
            if e is None:
                self.report("C17", "tracked:missing", "no tracked record for %s" % tracked_expect[0][0])
            else:
                self.match_tracked(e, tracked_expect)
        # handles copied out of the object stay reachable
        for idx in want:
            d = self.live.get(idx)
            if d is None:
                continue
            if d.startswith("alias"):
                self.live[idx] = "orphan-" + d   # copied-out handle outliving its owner
            else:
                del self.live[idx]

    def outcome_str(self, indices):
        if any(i not in self.last for i in indices):
            return "?"
        return "".join(str(self.last[i]) for i in indices)

    def match_tracked(self, e, expect):
        self.counts["tracked"] += 1
        for i, (k, o) in enumerate(expect):
            if k == e["key"]:
                if o != e["outcome"]:
                    self.report("C17", "tracked:outcome", "tracked %s recorded %r, last "
                                "measurements say %r" % (k, e["outcome"], o))
                self.tracked.append((e["key"], e["outcome"]))
                del expect[i]
                return
        self.report("C17", "tracked:unexpected", "unexpected tracked record %s=%s" %
                    (e["key"], e["outcome"]))

    # -- scopes
    def push(self):
        self.scopes.append(dict())
        self.tracked_scopes.append([])

    def pop(self, final=False):
        tr = self.tracked_scopes.pop()
        scope = self.scopes.pop()
        expect = [(k, self.outcome_str(ix)) for k, ix in tr]
        # tracked records of the closing scope (any order)
        for _ in range(len(expect)):
            e = self.next_event(("tracked",))
            if e is None:
                self.report("C17", "tracked:missing", "scope exit recorded no outcome for %s" %
                            ", ".join(k for k, _ in expect))
                break
            self.match_tracked(e, expect)
        # objects whose last reference was in this scope die now (any order between objects)
        dying = []
        for name, (kind, val) in scope.items():
            if kind == "obj" and val is not None:
                val.refs -= 1
                if val.refs == 0:
                    dying.append(val)
        pending = list(dying)
        while pending:
            nxt = self.peek_kind()
            if nxt is None:
                break
            # find which dying object the next reset belongs to
            chosen = None
            if nxt["k"] == "tracked":
                # the record precedes the reset of the same object: look ahead to that reset
                p = self.pos
                while p < len(self.ev) and not (self.ev[p]["k"] == "sim"):
                    p += 1
                nxt = self.ev[p] if p < len(self.ev) else None
            if nxt is not None and nxt["k"] == "sim" and nxt["op"] == "reset":
                for inst in pending:
                    if nxt["q0"] in inst.all_indices() and not (
                            inst.cls == "HD" and not inst.dead):
                        chosen = inst
                        break
            if chosen is None and nxt is not None and nxt["k"] == "sim" and nxt["op"] in ("alloc", "reset"):
                # an HD's destructor starts by declaring a qubit: a fresh allocation, or the recycling
                # reset of an index that belongs to no dying object
                hds = [inst for inst in pending if inst.cls == "HD" and not inst.dead]
                if hds:
                    # which HD it is shows two simulator operations later: x(ds), then h(its dq) - or
                    # nothing at all, when that dq is measured and the destructor is refused
                    sims = [e for e in self.ev[self.pos:] if e["k"] == "sim"][1:3]
                    hq = sims[1]["q0"] if len(sims) == 2 and sims[1]["op"] == "h" else None
                    for inst in hds:
                        if inst.q["dq"] == hq:
                            chosen = inst
                    if chosen is None:
                        refused = [inst for inst in hds if inst.q["dq"] in self.measured]
                        chosen = (refused or hds)[0]
            if chosen is None:
                break
            pending.remove(chosen)
            self.release(chosen, "scope-exit")
        for inst in pending:
            if inst.cls == "HD" and inst.q["dq"] in self.measured:
                # its destructor cannot run h on a measured qubit: the run stops here
                raise StopRun(HELPER_LINE["HD.dtor"], "destructor h touches measured qubit %d" % inst.q["dq"])
        for inst in pending:
            if inst.all_indices():
                self.report("C03", "release:missing", "object %s went out of scope but its qubits "
                            "were not released" % inst.cls)
        # plain local qubits stay allocated but are no longer reachable
        for name, (kind, val) in scope.items():
            if kind == "q":
                if self.live.get(val, "").endswith("alias " + name) or \
                        self.live.get(val, "") == "var " + name:
                    del self.live[val]
            elif kind == "reg":
                for i in val:
                    if self.live.get(i, "").startswith("reg " + name):
                        del self.live[i]

    # -- statements
    def op_guard(self, idx, line, what):
        if idx in self.measured:
            raise StopRun(line, "%s touches measured qubit %d" % (what, idx))

    def run(self, ir):
        # static qubit fields are allocated when the run starts, before main's first statement
        self.statics = {}
        for _ in range(2):
            nxt = next((e for e in self.ev[self.pos:] if e["k"] == "qalloc"), None)
            nm = nxt["name"] if nxt is not None and nxt.get("name") in ("HS.sq", "HSB.own") and \
                nxt["name"] not in self.statics else ("HS.sq" if "HS.sq" not in self.statics else "HSB.own")
            self.statics[nm] = self.alloc("static " + nm)
        self.push()
        try:
            for s in ir:
                self.stmt(s)
        finally:
            pass
        self.pop(final=True)

    def stmt(self, s):
        k = s["k"]
        if k == "ops":
            self.scopes[-1]["u"] = ("obj", None)
            self.scopes[-1]["k0"] = ("int", 0)
            self.scopes[-1]["k1"] = ("int", 1)
            self.scopes[-1]["k2"] = ("int", 2)
        elif k == "decl":
            if s["n"] is None:
                idx = self.alloc("var " + s["name"])
                self.scopes[-1][s["name"]] = ("q", idx)
                if s["tracked"]:
                    self.tracked_scopes[-1].append(("qubit " + s["name"], [idx]))
            else:
                ix = [self.alloc("reg %s[%d]" % (s["name"], i)) for i in range(s["n"])]
                self.scopes[-1][s["name"]] = ("reg", ix)
                if s["tracked"]:
                    self.tracked_scopes[-1].append(("qubit[] " + s["name"], ix))
        elif k == "new":
            inst = self.new_instance(s["cls"], s["name"])
            self.scopes[-1][s["name"]] = ("obj", inst)
        elif k == "destroy":
            kind, inst = self.lookup(s["name"])
            for sc in reversed(self.scopes):
                if s["name"] in sc:
                    sc[s["name"]] = ("obj", None)
                    break
            if inst is not None:
                inst.refs -= 1
                if inst.refs == 0:
                    self.release(inst, "destroy")
        elif k == "qassign":
            idx = self.resolve(s["src"])
            old = self.lookup(s["dst"])[1]
            for sc in reversed(self.scopes):
                if s["dst"] in sc:
                    sc[s["dst"]] = ("q", idx)
                    break
            if self.live.get(old) == "var " + s["dst"]:
                del self.live[old]              # its own qubit can no longer be named
            for lst in self.tracked_scopes:
                for j, (key, ix) in enumerate(lst):
                    if key == "qubit " + s["dst"]:
                        lst[j] = (key, [idx])   # the tracked record follows the handle
        elif k == "alias":
            spare = self.alloc("spare of " + s["name"])
            # the declaration's own qubit is dropped immediately (never reachable)
            del self.live[spare]
            idx = self.resolve(s["src"])
            self.scopes[-1][s["name"]] = ("q", idx)
            self.live[idx] = "alias " + s["name"]
        elif k == "gate":
            self.gate(s)
        elif k == "measure":
            idx = self.resolve(s["q"])
            line = s["line"]
            if s["form"] in ("qfunc", "method", "fstmt"):
                line = HELPER_LINE[{"qfunc": "qm", "method": "mm", "fstmt": "fms"}[s["form"]]]
            self.op_guard(idx, line, "measure")
            out = self.measure(idx)
            if s.get("bit"):
                self.scopes[-1][s["bit"]] = ("bit", out)
            if s["form"] == "echoexpr":
                e = self.next_event(("echo",))
                self.counts["echoes"] += 1
                if e is None or e["text"] != str(out):
                    self.report("C02", "measure:views:echo", "echo(measure q) printed %r, the simulator "
                                "reported %d" % (e and e["text"], out))
                self.echoes.append(str(out))
        elif k == "measure_reg":
            if s["kind"] == "reg":
                ix = self.lookup(s["name"])[1]
            else:
                ix = self.lookup(s["name"])[1].q[s.get("field") or "qs"]
            for idx in ix:
                self.op_guard(idx, s["line"], "measure register")
                self.measure(idx)
        elif k == "reset":
            idx = self.resolve(s["q"])
            e = self.expect_sim("reset", idx, what=" [reset statement]")
            self.apply_reset(idx, e, "statement")
        elif k == "echo_bit":
            v = self.lookup(s["bit"])[1]
            e = self.next_event(("echo",))
            self.counts["echoes"] += 1
            if e is None or e["text"] != str(v):
                self.report("C02", "measure:views:echo", "echo of measured bit %s printed %r, "
                            "the simulator reported %d" % (s["bit"], e and e["text"], v))
            self.echoes.append(str(v))
        elif k == "if":
            v = self.lookup(s["bit"])[1]
            take = bool(v) != bool(s["neg"])
            self.counts["branches"] += 1
            body = s["then"] if take else s["els"]
            if body is not None:
                self.push()
                for t in body:
                    self.stmt(t)
                self.pop()
        elif k == "for":
            if s["form"] == "for":
                self.push()
                for i in range(s["count"]):
                    self.scopes[-1][s["var"]] = ("int", i)
                    self.push()
                    for t in s["body"]:
                        self.stmt(t)
                    self.pop()
                self.pop()
            else:
                for i in range(s["count"]):
                    self.scopes[-1][s["var"]] = ("int", i)
                    self.push()
                    for t in s["body"]:
                        self.stmt(t)
                    self.pop()
        elif k == "block":
            self.push()
            for t in s["body"]:
                self.stmt(t)
            self.pop()
        else:
            raise ValueError(k)

    def new_instance(self, cls, name):
        inst = Instance(cls)
        if cls in ("H1", "H1S"):
            inst.q["q"] = self.alloc("%s.q" % name)
            inst.q["qs"] = [self.alloc("%s.qs[%d]" % (name, i)) for i in range(2)]
        elif cls == "HP":
            # fields are laid out base-first: HC.cq, HM<int>.mq, HP.pq - three distinct qubits
            for f in ("cq", "mq", "pq"):
                inst.q[f] = self.alloc("%s.%s" % (name, f))
        elif cls in ("HT", "HTS"):
            inst.q["tq"] = self.alloc("%s.tq" % name)
        elif cls == "HDT":
            inst.q["dt"] = self.alloc("%s.dt" % name)
        elif cls == "HFS":
            # two fields with one name: the base's and the subclass's own, two distinct qubits
            inst.q["base.fq"] = self.alloc("%s.(HF)fq" % name)
            inst.q["fq"] = self.alloc("%s.fq" % name)
        elif cls == "HK":
            inst.q["kq"] = self.alloc("%s.kq" % name)
            # its constructor builds, flips and destroys a helper object
            tmp = self.new_instance("H1", name + ".ctor-tmp")
            self.expect_sim("x", tmp.q["q"], what=" [HK constructor]")
            self.state.gate("x", tmp.q["q"], 0.0)
            self.check_state("x in HK constructor")
            self.release(tmp, "destroy-in-constructor")
        elif cls == "HA":
            inst.q["ta"] = [self.alloc("%s.ta[%d]" % (name, i)) for i in range(3)]
        elif cls == "HD":
            inst.q["dq"] = self.alloc("%s.dq" % name)
        elif cls == "HG":
            inst.q["gq"] = self.alloc("%s.gq" % name)
        elif cls == "H2":
            # fields are laid out in declaration order: inner (object), then z
            inst.q["z"] = self.alloc("%s.z" % name)
            inst.inner = self.new_instance("H1", name + ".inner")
        return inst

    def measure(self, idx):
        e = self.expect_sim("measure", idx)
        out = e["out"]
        self.counts["measures"] += 1
        p1 = self.state.p1(idx)
        if abs(e["p1"] - p1) > 1e-9:
            self.report("C02", "measure:p1", "simulator p1=%r, reference %r" % (e["p1"], p1))
        w = self.state.project(idx, out)
        if w <= 0:
            self.report("C02", "measure:support", "outcome %d has no support (p1=%r)" % (out, p1))
            self.state.project(idx, 1 - out)
        self.measured.add(idx)
        self.last[idx] = out
        self.check_state("measure q%d" % idx)
        return out

    def gate(self, s):
        g, via = s["g"], s["via"]
        if s.get("pre_bit"):
            self.scopes[-1][s["pre_bit"][0]] = ("bit", s["pre_bit"][1])
        ix = [self.resolve(q) for q in s["qs"]]
        if s.get("angle_via"):
            j = self.resolve(s["angle_via"])
            self.op_guard(j, HELPER_LINE["xthen"], "x inside the angle operand")
            self.expect_sim("x", j, what=" [inside the angle operand]")
            self.state.gate("x", j, 0.0)
            self.check_state("x q%d inside an operand" % j)
        helper = {"direct": None, "func": "f" + g, "funcr": "fcxr", "qfunc": "qh",
                  "nested": "inner2", "method": "m" + g, "sbase": "touchBase", "sown": "touchOwn",
                  "basex": "baseX", "subh": "subH"}[via]
        line = s["line"] if helper is None else HELPER_LINE[helper]
        for i in ix:
            self.op_guard(i, line, g)
        if g == "cx":
            if ix[0] == ix[1]:
                raise StopRun(line, "cx on the same qubit")
            self.expect_sim("cx", ix[0], ix[1])
            self.state.cx(ix[0], ix[1])
            self.check_state("cx q%d,q%d" % (ix[0], ix[1]))
        else:
            th = None
            if s["theta"] is not None:
                th = f32(s["theta"])
                if s.get("tprod"):
                    th = s["tprod"][0] * s["tprod"][1]     # evaluated in double, not narrowed
            self.expect_sim(g, ix[0], -1, th)
            self.state.gate(g, ix[0], th or 0.0)
            self.check_state("%s q%d" % (g, ix[0]))


def split_executions(events):
    runs = {}
    for e in events:
        runs.setdefault(e["x"], []).append(e)
    return [runs[k] for k in sorted(runs)]


def check_execution(ir, events, expect_error=None):
    """Step the model through one execution's events.  Returns (model, stop) where stop is None
    or the StopRun the model expects."""
    m = Model(events)
    stop = None
    try:
        m.run(ir)
    except StopRun as s:
        stop = s
    except Mismatch as ex:
        # most call sites report before raising; make sure none is lost
        if not any(f[0] == ex.prop and f[1] == ex.key for f in m.findings):
            m.report(ex.prop, ex.key, ex.what)
    except (KeyError, IndexError, TypeError) as ex:
        m.report("HARNESS", "model-error", "reference model failed: %r" % (ex,))
    else:
        # nothing may be left over
        rest = m.next_event(("sim", "qalloc", "qfree", "tracked", "echo"))
        if rest is not None:
            m.report("C05", "trace:extra-event", "the run performed an operation the program does "
                     "not contain: %s" % json.dumps(rest)[:200])
    return m, stop


# ---------------------------------------------------------------------------------------------
# per-property drivers

PROFILE_OF = {"C01": "gates", "C02": "measure", "C03": "handles", "C04": "reset"}
COUNTS = {"C01": (120, 2500), "C02": (150, 3000), "C03": (200, 4000), "C04": (120, 2500)}


def run_language_path(ctx, prop):
    binary = build.build("bloch", "asan")
    profile = PROFILE_OF[prop]
    n = ctx.n(*COUNTS[prop])
    cases = [dict(profile=profile, index=i) for i in range(n)]
    if prop == "C02":
        cases += [dict(profile="views", index=i, shots=(3 if i % 2 else 0)) for i in range(ctx.n(120, 2000))]
    if prop == "C01":
        cases += [dict(profile="regslots", index=i) for i in range(ctx.n(100, 1500))]
    if prop in ("C04", "C03"):
        cases += [dict(profile="releases", index=i) for i in range(ctx.n(150, 2500))]

    def one(case):
        return case, check_case(ctx, prop, binary, case)

    for case, res in core.pmap(one, cases):
        pass
    if prop == "C04":
        reset_statistics(ctx, binary)


def gen_case(ctx, case):
    rng = ctx.rng("%s/%d" % (case["profile"], case["index"]))
    return generate(rng, case["profile"])


def check_case(ctx, prop, binary, case, report_props=None):
    ir, src = gen_case(ctx, case)
    seed = (ctx.seed * 1000003 + case["index"]) & 0x7fffffff
    args = ["--shots=%d" % case["shots"], "--echo=all"] if case.get("shots") else []
    r, events, qasm, _ = core.run_bloch(binary, src, args=args, env={"BLOCH_VERIF_SEED": str(seed)},
                                        trace=True, state="all")
    cls = r.classify()
    ctx.note_case(src, nontrivial=True, sample=dict(program_tail=src[len(PRELUDE):][:600],
                                                     outcome=list(cls)[:2]))
    ctx.count("lang_programs")
    files = {"prog.bloch": src, "stderr.txt": r.stderr[-6000:], "stdout.txt": r.stdout[-4000:],
             "trace.jsonl": "\n".join(json.dumps(e) for e in events[:4000])}
    if cls[0] in ("sanitizer", "signal", "timeout", "raw", "exit", "exit1-nodiag"):
        if cls[0] == "timeout":
            ctx.inconclusive_because("program %d timed out twice" % case["index"])
        else:
            # a crash is C12's business; here it only means this case could not be judged
            ctx.count("lang_crashed")
            ctx.violation("crash:" + str(cls[1]) if len(cls) > 1 else "crash",
                          "program crashed while being monitored: %r" % (cls,), case, files)
        return None
    runs = split_executions(events)
    if cls[0] == "diag" and cls[1] != "Runtime":
        ctx.inconclusive_because("generated program %d was rejected statically: %s" %
                                 (case["index"], cls[4][:100]))
        return None
    if not runs:
        ctx.inconclusive_because("no trace for program %d" % case["index"])
        return None
    m, stop = check_execution(ir, runs[0])
    # multi-shot: every shot that ran is stepped against the model as well
    for extra in runs[1:]:
        m2, stop2 = check_execution(ir, extra)
        ctx.count("lang_extra_shots")
        m.findings.extend(m2.findings)
        if stop is None and stop2 is not None:
            m, stop = m2, stop2
    ctx.count("lang_ops_checked", m.counts["ops"])
    ctx.count("lang_states_compared", m.counts["states"])
    ctx.count("lang_measures", m.counts["measures"])
    ctx.count("lang_resets", m.counts["resets"])
    ctx.count("lang_recycled_allocs", m.counts["recycled"])
    ctx.count("lang_tracked_records", m.counts["tracked"])
    want = report_props or {prop, "HARNESS"}
    if prop == "C02" and case.get("shots") and cls[0] == "ok":
        # the aggregate table printed after a multi-shot run is one more view of the measured outcomes:
        # per tracked key and outcome it must count exactly the records of all shots
        from .props.c17 import parse_table
        agg = {}
        for e in events:
            if e["k"] == "tracked":
                agg.setdefault(e["key"], {})
                agg[e["key"]][e["outcome"]] = agg[e["key"]].get(e["outcome"], 0) + 1
        lines = r.stdout.split("\n")
        if lines and lines[-1] == "":
            lines.pop()
        hdr = [i for i, l in enumerate(lines) if l.startswith("Shots:")]
        if hdr and agg:
            body = [l for l in lines[hdr[-1] + 1:] if not l.startswith(("Backend:", "Elapsed:"))]
            table = parse_table(body)
            ctx.count("lang_tables_compared")
            if table is not None:
                got = {k: {o: c for o, (c, _) in rows.items()} for k, rows in table.items()}
                if got != agg:
                    ctx.violation("measure:views:table", "the printed tracked table %r differs from the outcomes "
                                  "recorded by the shots %r" % (got, agg), case, files)
    for p, key, what in m.findings:
        if prop == "C02" and p == "C17" and key == "tracked:outcome":
            # the tracked outcome is one of the views C02 requires to agree with the returned bit
            ctx.violation("measure:views:tracked", what, case, files)
        elif p in want:
            ctx.violation(key if p == prop else p + ":" + key, what, case, files)
    # expected termination
    if stop is None and cls[0] != "ok":
        if prop in ("C01", "C02", "C03", "C04") and cls[0] == "diag":
            ctx.violation("lang:unexpected-error", "program stopped with %r but the model expects "
                          "it to finish" % (cls,), case, files)
    if stop is not None and cls[0] == "ok" and "C06" in want:
        ctx.violation("flag:op-not-refused", "model expects a runtime error (%s) but the run "
                      "finished" % stop.reason, case, files)
    return m, stop, cls, r, events, qasm, src, ir


def reset_statistics(ctx, binary):
    """C04 language path: Bell/GHZ programs that reset / destroy / recycle one qubit, then measure
    the tracked partners over many seeded shots; partner statistics must stay 50/50 (6 sigma)."""
    shots = ctx.n(600, 6000)
    variants = {
        "statement": "qubit a; @tracked qubit b; h(a); cx(a, b); reset a; measure b; measure a;",
        "function": "qubit a; @tracked qubit b; h(a); cx(a, b); freset(a); measure b; measure a;",
        "destroy": "H1 o = new H1(); @tracked qubit b; h(o.q); cx(o.q, b); destroy o; measure b;",
        "reuse": "H1 o = new H1(); @tracked qubit b; h(o.q); cx(o.q, b); destroy o; "
                 "H1 p = new H1(); measure b; measure p.q;",
        "ghz": "qubit a; @tracked qubit[2] r; h(a); cx(a, r[0]); cx(a, r[1]); reset a; "
               "measure r; measure a;",
        # a re-allocated index must come back as |0> whatever happened to it while it was free
        "zero:reuse-after-stale-gate": "H1 o = new H1(); qubit s = o.q; destroy o; h(s); HT p = new HT(); "
                                       "HT p2 = new HT(); HT p3 = new HT(); measure p.tq; measure p2.tq; measure p3.tq;",
        "zero:reuse-after-x": "HT o = new HT(); x(o.tq); destroy o; HT p = new HT(); measure p.tq;",
        "zero:destroy-entangled-then-reuse": "HT o = new HT(); qubit c; h(c); cx(c, o.tq); destroy o; "
                                             "HT p = new HT(); measure p.tq; measure c;",
    }

    def one(item):
        name, body = item
        src = PRELUDE + "function main() -> void { %s }\n" % body
        r, events, _, _ = core.run_bloch(binary, src, args=["--shots=%d" % shots],
                                         env={"BLOCH_VERIF_SEED": str(ctx.seed * 77 + 5)},
                                         trace=True, timeout=300)
        return name, src, r, events

    for name, src, r, events in core.pmap(one, variants.items()):
        cls = r.classify()
        ctx.note_case(src, sample=None)
        if cls[0] != "ok":
            ctx.violation("reset-stat:crash:" + name, "statistics program failed: %r" % (cls,),
                          dict(variant=name), {"prog.bloch": src, "stderr.txt": r.stderr[-4000:]})
            continue
        counts = {}
        for e in events:
            if e["k"] == "tracked":
                counts[e["outcome"]] = counts.get(e["outcome"], 0) + 1
        total = sum(counts.values())
        ctx.count("c04_stat_shots", total)
        ones = sum(v for k, v in counts.items() if k and set(k) == {"1"})
        zeros = sum(v for k, v in counts.items() if k and set(k) == {"0"})
        other = total - ones - zeros
        if name.startswith("zero:"):
            ctx.count("c04_reuse_shots", total)
            if ones:
                ctx.violation("reset:reuse-not-zero:" + name[5:],
                              "a re-allocated qubit did not read 0: outcomes %r over %d shots" % (counts, shots),
                              dict(variant=name), {"prog.bloch": src})
            continue
        sigma = math.sqrt(0.25 / max(total, 1))
        dev = abs(ones / max(total, 1) - 0.5)
        if total != shots or other or dev > 6 * sigma:
            ctx.violation("reset:partner-statistics:" + name,
                          "partner of a reset qubit: outcomes %r over %d shots (expected 50/50, "
                          "6 sigma = %.3f)" % (counts, shots, 6 * sigma), dict(variant=name),
                          {"prog.bloch": src})


def replay(ctx, prop, case):
    binary = build.build("bloch", "asan")
    if "variant" in case:
        reset_statistics(ctx, binary)
        return
    res = check_case(ctx, prop, binary, case)
    ir, src = gen_case(ctx, case)
    print(src[len(PRELUDE):])
