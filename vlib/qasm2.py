"""Strict reader + state-vector interpreter for the OpenQASM 2.0 subset Bloch emits.

parse(text) -> (nq, ncreg, ops) or raises QasmError(rule, message).  ops are tuples
(name, qubits, theta) with name in h x y z rx ry rz cx reset measure."""
import re

from . import qref


class QasmError(Exception):
    def __init__(self, rule, msg):
        Exception.__init__(self, msg)
        self.rule = rule


NUM = r"[-+]?(?:\d+\.\d*|\.\d+|\d+)(?:[eE][-+]?\d+)?"
RE_QREG = re.compile(r"^qreg q\[(\d+)\];$")
RE_CREG = re.compile(r"^creg c\[(\d+)\];$")
RE_G1 = re.compile(r"^(h|x|y|z) q\[(\d+)\];$")
RE_ROT = re.compile(r"^(rx|ry|rz)\((%s)\) q\[(\d+)\];$" % NUM)
RE_CX = re.compile(r"^cx q\[(\d+)\],q\[(\d+)\];$")
RE_RESET = re.compile(r"^reset q\[(\d+)\];$")
RE_MEAS = re.compile(r"^measure q\[(\d+)\] -> c\[(\d+)\];$")


def parse(text):
    if not text.endswith("\n"):
        raise QasmError("final-newline", "text does not end with a newline")
    lines = text.split("\n")[:-1]
    if len(lines) < 4:
        raise QasmError("header", "fewer than four lines")
    if lines[0] != "OPENQASM 2.0;":
        raise QasmError("header", "first line is %r" % lines[0])
    if lines[1] != 'include "qelib1.inc";':
        raise QasmError("include", "second line is %r" % lines[1])
    m = RE_QREG.match(lines[2])
    if not m:
        raise QasmError("qreg", "third line is %r" % lines[2])
    nq = int(m.group(1))
    m = RE_CREG.match(lines[3])
    if not m:
        raise QasmError("creg", "fourth line is %r" % lines[3])
    nc = int(m.group(1))
    ops = []
    for ln, line in enumerate(lines[4:], 5):
        m = RE_G1.match(line)
        if m:
            ops.append((m.group(1), (int(m.group(2)),), None))
            continue
        m = RE_ROT.match(line)
        if m:
            ops.append((m.group(1), (int(m.group(3)),), float(m.group(2))))
            continue
        m = RE_CX.match(line)
        if m:
            a, b = int(m.group(1)), int(m.group(2))
            if a == b:
                raise QasmError("cx-same-qubit", "line %d: %s" % (ln, line))
            ops.append(("cx", (a, b), None))
            continue
        m = RE_RESET.match(line)
        if m:
            ops.append(("reset", (int(m.group(1)),), None))
            continue
        m = RE_MEAS.match(line)
        if m:
            if int(m.group(2)) >= nc:
                raise QasmError("operand-range", "line %d: classical bit out of range: %s" % (ln, line))
            ops.append(("measure", (int(m.group(1)),), None))
            continue
        raise QasmError("statement", "line %d is not in the emitted subset: %r" % (ln, line))
    for name, qs, _ in ops:
        for q in qs:
            if q >= nq:
                raise QasmError("operand-range", "%s on q[%d] with qreg q[%d]" % (name, q, nq))
    return nq, nc, ops


def replay(nq, ops, outcomes):
    """Run ops on |0..0> forcing each measure/reset to the next recorded outcome/branch.
    Returns (state vector, list of problems)."""
    st = qref.State()
    for _ in range(nq):
        st.alloc()
    problems = []
    it = iter(outcomes)
    for name, qs, theta in ops:
        if name in ("h", "x", "y", "z"):
            st.gate(name, qs[0])
        elif name in ("rx", "ry", "rz"):
            st.gate(name, qs[0], theta)
        elif name == "cx":
            st.cx(qs[0], qs[1])
        elif name == "measure":
            out = next(it, None)
            if out is None:
                problems.append("no recorded outcome for a measure")
                out = 0
            if st.project(qs[0], out) <= 0:
                problems.append("recorded outcome %d of measure q[%d] has no support in the replay" % (out, qs[0]))
                st.project(qs[0], 1 - out)
        elif name == "reset":
            br = next(it, None)
            if br is None or br < 0:
                br = 0 if st.weight(qs[0], 0) > 0 else 1
            if st.reset(qs[0], br) <= 0:
                problems.append("recorded branch %d of reset q[%d] has no support in the replay" % (br, qs[0]))
                st.reset(qs[0], 1 - br)
    return st.v, problems
