"""Independent reference state-vector simulator (pure Python, little endian) written from the
gate definitions: used by the offline trace checkers and by the OpenQASM replay."""
import cmath
import math

SQ = 1.0 / math.sqrt(2.0)
PAULI = {
    "x": ((0, 1), (1, 0)),
    "y": ((0, -1j), (1j, 0)),
    "z": ((1, 0), (0, -1)),
}


def matrix(op, theta=0.0):
    if op == "h":
        return ((SQ, SQ), (SQ, -SQ))
    if op in PAULI:
        return PAULI[op]
    if op in ("rx", "ry", "rz"):
        p = PAULI[op[1]]
        c, s = math.cos(theta / 2.0), math.sin(theta / 2.0)
        return tuple(tuple((c if r == k else 0) - 1j * s * p[r][k] for k in range(2))
                     for r in range(2))
    raise ValueError(op)


class State:
    def __init__(self):
        self.n = 0
        self.v = [1 + 0j]

    def copy(self):
        s = State()
        s.n = self.n
        s.v = list(self.v)
        return s

    def alloc(self):
        self.v = self.v + [0j] * len(self.v)
        self.n += 1
        return self.n - 1

    def apply1(self, q, u):
        out = [0j] * len(self.v)
        bit = 1 << q
        for i, a in enumerate(self.v):
            if a == 0:
                continue
            b = 1 if i & bit else 0
            base = i & ~bit
            out[base] += u[0][b] * a
            out[base | bit] += u[1][b] * a
        self.v = out

    def gate(self, op, q, theta=0.0):
        self.apply1(q, matrix(op, theta))

    def cx(self, c, t):
        out = [0j] * len(self.v)
        for i, a in enumerate(self.v):
            out[i ^ (((i >> c) & 1) << t)] = a
        self.v = out

    def p1(self, q):
        bit = 1 << q
        return sum(abs(a) ** 2 for i, a in enumerate(self.v) if i & bit)

    def weight(self, q, b):
        bit = 1 << q
        return sum(abs(a) ** 2 for i, a in enumerate(self.v) if (1 if i & bit else 0) == b)

    def project(self, q, b):
        """Normalised projection onto qubit q == b; returns the branch weight (0 => no support)."""
        w = self.weight(q, b)
        if w <= 0:
            return 0.0
        inv = 1.0 / math.sqrt(w)
        bit = 1 << q
        self.v = [a * inv if (1 if i & bit else 0) == b else 0j for i, a in enumerate(self.v)]
        return w

    def reset(self, q, branch):
        """OpenQASM reset given the branch the qubit was found in."""
        w = self.project(q, branch)
        if w > 0 and branch == 1:
            bit = 1 << q
            out = [0j] * len(self.v)
            for i, a in enumerate(self.v):
                if i & bit:
                    out[i ^ bit] = a
            self.v = out
        return w

    def norm2(self):
        return sum(abs(a) ** 2 for a in self.v)


def phase_dist(ref, act):
    """max_i |act_i - e^{i phi} ref_i| with phi = arg<ref|act>."""
    if len(ref) != len(act):
        return float("inf")
    ip = sum(r.conjugate() * a for r, a in zip(ref, act))
    ph = ip / abs(ip) if abs(ip) > 1e-300 else 1
    return max(abs(a - ph * r) for r, a in zip(ref, act))


def reduced_diag(v, n, keep):
    """Joint outcome distribution of the qubits in `keep` (list of indices, little endian)."""
    out = {}
    for i, a in enumerate(v):
        p = abs(a) ** 2
        if p == 0:
            continue
        key = tuple((i >> q) & 1 for q in keep)
        out[key] = out.get(key, 0.0) + p
    return out


def from_trace(ev):
    return [complex(r, i) for r, i in zip(ev["re"], ev["im"])]
