"""C03: see DESIGN.md section 3. In-process monitor (harness/simmon.cpp) + language path."""
from .. import simmon_driver, qlang

PROP = "C03"
RULE = ("random histories interleaving allocate / gate / measure / reset with hostile draws (0, 2^-53, "
        "1-2^-53) incl. x;h;h rounding states; after EVERY simulator operation: 2^n amplitudes, all "
        "finite, |norm^2-1|<=1e-9, allocation keeps old state (x)|0>; generated programs with "
        "objects owning qubits, destroy, re-allocation and handles copied out of objects, where the "
        "model flags any allocation that returns an index still reachable through another handle. "
        "A case is one history or one program; non-trivial = at least 2 operations.")
ASSUMPTIONS = ["invariants are checked at simPost of every public simulator operation",
               "handle model covers straight-line programs with single-reference objects",
               "reachability of a handle is the generator's lexical knowledge (variable in scope)"]


def run(ctx):
    ctx.rule = RULE
    ctx.assumptions = ASSUMPTIONS
    simmon_driver.run_simmon(ctx, PROP)
    qlang.run_language_path(ctx, PROP)


def replay(ctx, data):
    case = data["case"]
    if "simmon_case" in case:
        simmon_driver.replay_simmon(ctx, PROP, case)
    else:
        qlang.replay(ctx, PROP, case)
