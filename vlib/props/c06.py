"""C06: a measured qubit cannot be operated on until reset, through any access path.

The generator's per-qubit state machine {active, measured} is stepped (vlib/qlang.Model) against the
trace: the first operation the model finds on a measured qubit must stop the run with a located
Runtime error and no simulator operation; runs the model lets finish must finish; the evaluator's
and the simulator's measured flags must agree at every statement boundary (trace 'flags' events)."""
import itertools
import re

from .. import build, core, qlang

PROP = "C06"
RULE = ("random sequences of declare / gate / measure-statement / measure-expression / measure-array / "
        "reset over <= 6 qubits, each qubit named through a random path (variable, array element with "
        "constant or computed index, function / @quantum function / method parameter, object field, "
        "field of a field, recycled index), misuse deliberately included (profile 'flags', and 'flags_recycle' "
        "which destroys objects owning several qubits and re-declares qubits on the freed indices before the "
        "misuse) and the directed 'recycle' family (an object with several qubits dies, its indices go to new "
        "declarations one by one, one of which is measured and touched again); thorough adds "
        "all sequences of length <= 4 over 2 qubits x {h, measure, reset} x 3 naming paths. Expected: "
        "exit 0 iff the model never operates on a measured qubit, else exit 1 with 'Runtime error at Ln L' "
        "where L is the line of the first offending built-in call, and no traced simulator operation for "
        "it. Distinct = distinct programs; non-trivial = at least one measurement.")
ASSUMPTIONS = ["the error line is the line of the built-in call that touches the qubit (inside the helper "
               "when the qubit is reached through a function or method parameter)",
               "flag agreement is audited by the guarded boundary hook at every statement boundary"]


def judge(ctx, case, src, res):
    if res is None:
        return
    m, stop, cls, r, events, qasm, src, ir = res
    files = {"prog.bloch": src, "stderr.txt": r.stderr[-3000:], "stdout.txt": r.stdout[-2000:]}
    ctx.count("measures_modelled", m.counts["measures"])
    if stop is None:
        ctx.count("expected_to_finish")
        if cls[0] == "diag":
            key = "flag:refused-active" if "already been measured" in cls[4] or "measured qubit" in cls[4] \
                else "flag:unexpected-error"
            ctx.violation(key, "the model never touches a measured qubit but the run stopped: line %d: %s" %
                          (cls[2], cls[4]), case, files)
        return
    ctx.count("expected_to_stop")
    if stop.reason.startswith("destructor"):
        ctx.count("expected_to_stop_inside_a_destructor")
    if cls[0] == "ok":
        return  # already reported by check_case as flag:op-not-refused
    if cls[0] != "diag" or cls[1] != "Runtime":
        return
    if "cx on the same qubit" in stop.reason:
        if cls[2] != stop.line:
            ctx.violation("flag:location:cx", "cx(q,q) refused at line %d, expected %d" % (cls[2], stop.line), case, files)
        return
    if "measured" not in cls[4]:
        ctx.violation("flag:wrong-error", "expected a measured-qubit refusal (%s), got: %s" % (stop.reason, cls[4]),
                      case, files)
        return
    if cls[2] != stop.line:
        ctx.violation("flag:location", "refusal reported at line %d, the offending built-in call is on line %d (%s)" %
                      (cls[2], stop.line, stop.reason), case, files)
    # nothing may have reached the simulator for the refused operation
    rest = [e for e in m.ev[m.pos:] if e["k"] == "sim" and e["op"] != "reset"]
    if stop.reason.startswith("destructor"):
        # other objects dying at the same scope exit still run their destructors (the error is
        # raised once the scope is closed): only the refused qubit itself must stay untouched
        mo = re.search(r"measured qubit (\d+)", stop.reason)
        q = int(mo.group(1)) if mo else -1
        rest = [e for e in rest if q in (e["q0"], e["q1"])]
    if rest:
        ctx.violation("flag:op-reached-simulator", "after the refusal point the simulator still performed %s q%d" %
                      (rest[0]["op"], rest[0]["q0"]), case, files)


def exhaustive_cases():
    """All sequences of length <= 4 over 2 qubits x {h, measure, reset} x 3 naming paths."""
    ops = []
    for q in (0, 1):
        for path in ("var", "elem", "func"):
            for op in ("h", "measure", "reset"):
                ops.append((op, q, path))
    out = []
    for n in range(1, 5):
        for seq in itertools.product(ops, repeat=n):
            # keep the volume bounded: at most one path switch per sequence
            if len({p for _, _, p in seq}) <= 2:
                out.append(seq)
    return out


def render_exhaustive(seq):
    """IR for a fixed sequence over qubits a (variable) and r[0] (array element)."""
    ir = [dict(k="ops"), dict(k="decl", name="a", n=None, tracked=False),
          dict(k="decl", name="r", n=2, tracked=False)]
    for op, q, path in seq:
        ref = ("v", "a") if q == 0 else ("e", "r", 0, "c" if path != "elem" else "k")
        via = "func" if path == "func" else "direct"
        if op == "h":
            ir.append(dict(k="gate", g="h", qs=[ref], theta=None, via=via))
        elif op == "measure":
            ir.append(dict(k="measure", q=ref, form="fstmt" if path == "func" else "stmt", bit=None))
        else:
            ir.append(dict(k="reset", q=ref, via=via))
    return ir


def run(ctx):
    ctx.rule = RULE
    ctx.assumptions = ASSUMPTIONS
    binary = build.build("bloch", "asan")
    n = ctx.n(800, 20000)
    # every third program runs as two shots: all but the last shot execute with QASM logging off
    cases = [dict(profile="flags", index=i, shots=(2 if i % 3 == 0 else 0)) for i in range(n)]
    cases += [dict(profile="flags_recycle", index=i, shots=(2 if i % 4 == 0 else 0)) for i in range(n // 2)]
    cases += [dict(profile="recycle", index=i, shots=0) for i in range(n // 4)]

    def one(case):
        res = qlang.check_case(ctx, "C06", binary, case, report_props={"C06", "HARNESS"})
        ir, src = qlang.gen_case(ctx, case)
        judge(ctx, case, src, res)

    core.pmap(one, cases)
    if not ctx.quick():
        seqs = exhaustive_cases()
        step = max(1, len(seqs) // 6000)

        def two(i):
            ir = render_exhaustive(seqs[i])
            src = qlang.Renderer().render(ir)
            case = dict(exhaustive=i)
            r, events, qasm, _ = core.run_bloch(binary, src, env={"BLOCH_VERIF_SEED": str(ctx.seed + i)},
                                                trace=True, state="all")
            runs = qlang.split_executions(events)
            if not runs:
                return
            m, stop = qlang.check_execution(ir, runs[0])
            ctx.note_case(src, sample=None)
            ctx.count("exhaustive_sequences")
            for p, key, what in m.findings:
                if p in ("C06", "HARNESS"):
                    ctx.violation(key, what, case, {"prog.bloch": src})
            cls = r.classify()
            if stop is not None and cls[0] == "ok":
                ctx.violation("flag:op-not-refused", "sequence %r finished, model expects a refusal" % (seqs[i],),
                              case, {"prog.bloch": src})
            judge(ctx, case, src, (m, stop, cls, r, events, qasm, src, ir))

        core.pmap(two, range(0, len(seqs), step))


def replay(ctx, data):
    binary = build.build("bloch", "asan")
    case = data["case"]
    if "exhaustive" in case:
        return
    res = qlang.check_case(ctx, "C06", binary, case, report_props={"C06", "HARNESS"})
    ir, src = qlang.gen_case(ctx, case)
    judge(ctx, case, src, res)
    print(src[len(qlang.PRELUDE):])
