"""C08: object model - construction order, dispatch, overloads, statics, generics, destructors."""
import re

from .. import build, core
from ..gen_classes import generate, match_output

PROP = "C08"
LEVEL = "exploration"
RULE = ("random class hierarchies (depth <= 4, 2-6 classes) with traced field initialisers, 1-2 "
        "constructors per class (explicit super(...) with traced arguments / implicit super()), "
        "virtual chains (virtual, virtual override, leaf override), super.m() from overrides and "
        "from helper methods, this.m()/bare m() from methods and constructors, per-class static "
        "counters, an overload holder over primitive and class parameters (1-2 parameters, null "
        "arguments), a generic Box<T> instantiated twice; main performs 6-16 random actions "
        "(construct through a base-typed variable, virtual/super/inner calls, overload calls with "
        "static argument types, field writes, destroy, reassignment, nested block). The reference "
        "model (vlib/gen_classes.py) predicts every echo line; destructor chains of objects dying "
        "at one scope exit are compared as a bag. Distinct = distinct programs; non-trivial = the "
        "expected trace has >= 8 lines.")
ASSUMPTIONS = ["collections are masked (BLOCH_VERIF_GC=none) so that C11's subject cannot change the trace",
               "kept out: non-virtual method hiding, the state of a variable after 'destroy v', objects "
               "referenced from more than one place, order of destructors at one scope exit",
               "overload calls that the documented cost order makes ambiguous are not generated"]


def program_source(rng):
    try:
        return generate(rng)[0]
    except Exception:
        return None


def bucket(msg, expected, got):
    m = re.search(r"expected '?\"?([~A-Za-z0-9_.()]+)", msg)
    e = m.group(1) if m else ""
    g = re.search(r"got '?\"?([~A-Za-z0-9_.()]+)", msg)
    gg = g.group(1) if g else ""
    def kind(x):
        if x.startswith("~") or "destructor chains" in msg:
            return "dtor"
        if x.startswith("ov("):
            return "overload"
        if ".ctor" in x or ".superarg" in x or re.search(r"\.f\d+_\d+$", x):
            return "ctor-order"
        if x.endswith((".vm", ".vn")):
            return "virtual"
        if x.endswith(".sup") or x.endswith(".inner"):
            return "super-call"
        if x.endswith(".sm"):
            return "static"
        return "value"
    ke = kind(e)
    if ke == "virtual" and expected_is_super(expected, got):
        return "class:super-call"
    return "class:" + ke


def expected_is_super(expected, got):
    return False


def check_case(ctx, binary, index):
    src, expected, g = generate(ctx.rng(index))
    r, _, _, _ = core.run_bloch(binary, src, env={"BLOCH_VERIF_GC": "none"}, timeout=60)
    cls = r.classify()
    nlines = sum(len(e) if isinstance(e, list) else 1 for e in expected)
    ctx.note_case(src, nontrivial=nlines >= 8, sample=dict(program_tail=src[-700:], expected_head=[
        e if not isinstance(e, list) else list(e) for e in expected[:10]]))
    files = {"prog.bloch": src, "stderr.txt": r.stderr[-6000:], "stdout.txt": r.stdout[-6000:],
             "expected.txt": "\n".join(repr(e) for e in expected)}
    case = dict(index=index)
    if cls[0] != "ok":
        if cls[0] == "diag" and cls[1] == "Semantic":
            ctx.violation("class:rejected", "generated class program rejected: line %d: %s" % (cls[2], cls[4]),
                          case, files)
        elif cls[0] == "diag":
            ctx.violation("class:runtime-error", "unexpected runtime error: line %d: %s" % (cls[2], cls[4]),
                          case, files)
        else:
            ctx.violation("crash:" + str(cls[1] if len(cls) > 1 else cls[0]), "crashed: %r" % (cls,), case, files)
        return
    got = r.stdout.split("\n")
    if got and got[-1] == "":
        got.pop()
    ctx.count("trace_lines_compared", nlines)
    msg = match_output(expected, got)
    if msg:
        # classify by the previous expected plain line when the mismatch is a return value
        key = bucket(msg, expected, got)
        # super-call: mismatch right after a '.sup' tag
        m = re.search(r"at output line (\d+)", msg)
        if m:
            i = int(m.group(1))
            prev = got[i - 1] if 0 < i <= len(got) else ""
            if prev.endswith(".sup") or (key == "class:virtual" and prev.endswith(".sup")):
                key = "class:super-call"
            elif prev.endswith(".inner"):
                key = "class:inner-call"
        ctx.violation(key, msg, case, files)


def run(ctx):
    ctx.rule = RULE
    ctx.assumptions = ASSUMPTIONS
    binary = build.build("bloch", "asan")
    n = ctx.n(800, 10000)
    core.pmap(lambda i: check_case(ctx, binary, i), range(n))


def replay(ctx, data):
    binary = build.build("bloch", "asan")
    check_case(ctx, binary, data["case"]["index"])
