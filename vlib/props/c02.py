"""C02: see DESIGN.md section 3. In-process monitor (harness/simmon.cpp) + language path."""
from .. import simmon_driver, qlang

PROP = "C02"
RULE = ("random product / entangled / edge-probability states (n<=6, optional measure/reset history); "
        "for every unmeasured qubit: K-point draw grid (threshold law |ones/K - p1| <= 1/K), seven "
        "boundary draws {0, 2^-53, p1-ulp, p1, p1+ulp, 1-2^-53, .5}, and seeded production-RNG "
        "frequencies (6 sigma); every single measure is checked for support, collapse to the "
        "normalised projection and certain re-read; generated programs measuring through every "
        "statement form with echo / @tracked views compared with the traced outcome. A case is one "
        "prepared state (all its qubits) or one program; non-trivial = at least one measure observed.")
ASSUMPTIONS = ["draws are injected through the BLOCH_VERIF draw source; only values the real generator "
               "can emit (multiples of 2^-53 in [0,1)) are injected",
               "the distribution claim is statistical: 6-sigma bound per state with the seeded mt19937",
               "the grid test assumes the outcome is monotone in the draw (threshold implementation)"]


def run(ctx):
    ctx.rule = RULE
    ctx.assumptions = ASSUMPTIONS
    simmon_driver.run_simmon(ctx, PROP)
    qlang.run_language_path(ctx, PROP)


def replay(ctx, data):
    case = data["case"]
    if "simmon_case" in case:
        simmon_driver.replay_simmon(ctx, PROP, case)
    else:
        qlang.replay(ctx, PROP, case)
