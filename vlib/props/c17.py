"""C17: @tracked/@shots reporting counts every scope exit of every shot exactly once.

Conservation check over recorded histories: the reference model (vlib/qlang.Model) predicts, per
execution, which tracked records must appear (one per scope/owner exit) and with which outcome
string; the trace's tracked events are matched against it; the CLI's aggregate table must be the sum
of the per-execution events; probabilities are count / that variable's total; @shots beats --shots;
echo lines appear once per shot exactly when --echo=all (or auto/unset with a single shot)."""
import re

from .. import build, core, qlang

PROP = "C17"
RULE = ("generated programs (profile 'tracked': tracked locals, loop-scoped tracked qubits with k exits "
        "per shot, block-scoped tracked variables, tracked registers partly measured / re-measured after "
        "reset, tracked object fields whose owner is destroyed explicitly or at scope exit) x shot count by "
        "--shots in {none,1,2,5,17}, by @shots in {none,1,3,8}, both, x --echo in {unset,all,none,auto}. "
        "Distinct = distinct (program, configuration); non-trivial = at least one tracked record.")
ASSUMPTIONS = ["per-execution outcomes are adopted from the trace (seeded RNG); the model predicts which records "
               "must exist and their outcome strings from the last measurement of each element",
               "'--echo=none' is an explicit request to suppress and is honoured also for a single shot",
               "probabilities are printed with three decimals: compared within 0.0006"]

ROW = re.compile(r"^(\S+)\s*\|\s*(\d+)\s*\|\s*([0-9.eE+-]+|nan|inf)\s*$")


def parse_table(lines):
    """lines after the Elapsed line -> {key: {outcome: (count, prob)}}"""
    out = {}
    i = 0
    while i < len(lines):
        if not lines[i].strip():
            i += 1
            continue
        key = lines[i]
        if i + 2 >= len(lines) or not lines[i + 1].startswith("outcome"):
            return None
        i += 3
        rows = {}
        while i < len(lines) and lines[i].strip():
            m = ROW.match(lines[i])
            if not m:
                return None
            rows[m.group(1)] = (int(m.group(2)), m.group(3))
            i += 1
        out[key] = rows
    return out


def check_case(ctx, binary, case):
    rng = ctx.rng("tracked/%d" % case["index"])
    flag, ann, echo = case["flag"], case["ann"], case["echo"]
    ir, src = qlang.generate(rng, "tracked", shots_annotation=ann)
    args = []
    if flag is not None:
        args.append("--shots=%d" % flag)
    if echo is not None:
        args.append("--echo=%s" % echo)
    seed = (ctx.seed * 104729 + case["index"]) & 0x7fffffff
    r, events, _, _ = core.run_bloch(binary, src, args=args, env={"BLOCH_VERIF_SEED": str(seed)}, trace=True,
                                     timeout=120)
    cls = r.classify()
    files = {"prog.bloch": src, "stdout.txt": r.stdout[-8000:], "stderr.txt": r.stderr[-3000:], "args.txt": " ".join(args)}
    if cls[0] != "ok":
        if cls[0] == "diag" and cls[1] == "Runtime":
            ctx.count("ended_by_runtime_error")
            return
        ctx.violation("crash:%s" % (cls[1] if len(cls) > 1 else cls[0],), "run failed: %r" % (cls,), case, files)
        return
    N = ann if ann is not None else (flag if flag is not None else 1)
    provided = ann is not None or flag is not None
    runs = qlang.split_executions(events)
    nrec = sum(1 for e in events if e["k"] == "tracked")
    ctx.note_case((src, flag, ann, echo), nontrivial=nrec > 0,
                  sample=dict(args=args, annotation=ann, tail=src[len(qlang.PRELUDE):][:300]))
    ctx.count("executions", len(runs))
    ctx.count("tracked_records", nrec)
    if len(runs) != N:
        ctx.violation("shots:precedence" if (ann is not None and flag is not None) else "shots:count",
                      "expected %d executions (flag=%r, @shots=%r), the trace shows %d" % (N, flag, ann, len(runs)),
                      case, files)
        return
    # per-execution conservation against the model
    agg = {}
    echoes = []
    for ev in runs:
        m, stop = qlang.check_execution(ir, ev)
        for p, key, what in m.findings:
            if p in ("C17", "HARNESS"):
                ctx.violation(key, what, case, files)
        for e in ev:
            if e["k"] == "tracked":
                agg.setdefault(e["key"], {})
                agg[e["key"]][e["outcome"]] = agg[e["key"]].get(e["outcome"], 0) + 1
            elif e["k"] == "echo":
                echoes.append(e["text"])
    lines = r.stdout.split("\n")
    if lines and lines[-1] == "":
        lines.pop()
    # echo policy
    show = (echo == "all") or (echo in (None, "auto") and N == 1)
    if provided:
        try:
            si = lines.index("Shots: %d" % N)
        except ValueError:
            hdr = [l for l in lines if l.startswith("Shots:")]
            ctx.violation("shots:precedence" if hdr else "table:missing",
                          "expected 'Shots: %d', output has %r" % (N, hdr[:1]), case, files)
            return
        echo_lines, rest = lines[:si], lines[si + 1:]
    else:
        echo_lines, rest = lines, []
    want = echoes if show else []
    if echo == "none":
        want = []
    if echo_lines != want:
        ctx.violation("echo:policy:%s" % (echo or "unset"),
                      "with --echo=%s and %d shot(s): %d echo line(s) printed, %d expected" %
                      (echo, N, len(echo_lines), len(want)), case, files)
    if not provided:
        return
    # table
    body = [l for l in rest if not l.startswith(("Backend:", "Elapsed:"))]
    table = parse_table(body)
    if table is None:
        ctx.violation("table:format", "cannot parse the aggregate table", case, files)
        return
    ctx.count("tables_checked")
    got_counts = {k: {o: c for o, (c, p) in rows.items()} for k, rows in table.items()}
    if got_counts != agg:
        ctx.violation("tracked:aggregate", "aggregate table %r differs from the sum of per-shot records %r" %
                      (got_counts, agg), case, files)
        return
    for k, rows in table.items():
        total = sum(c for c, _ in rows.values())
        psum = 0.0
        for o, (c, ptxt) in rows.items():
            try:
                p = float(ptxt)
            except ValueError:
                p = float("nan")
            psum += p
            ctx.count("probabilities_checked")
            if not (0.0 <= p <= 1.0) or abs(p - c / total) > 0.0006:
                ctx.violation("tracked:prob", "%s outcome %s: count %d of %d printed with probability %s" %
                              (k, o, c, total, ptxt), case, files)
                break
        else:
            if abs(psum - 1.0) > 0.0006 * len(rows) + 1e-9:
                ctx.violation("tracked:prob-sum", "%s probabilities sum to %.4f" % (k, psum), case, files)


def run(ctx):
    ctx.rule = RULE
    ctx.assumptions = ASSUMPTIONS
    binary = build.build("bloch", "plain")   # many shots x many qubits: the optimised build
    n = ctx.n(240, 5000)
    cases = []
    flags = [None, 1, 2, 5, 17]
    anns = [None, None, 1, 3, 8]
    echos = [None, "all", "none", "auto"]
    for i in range(n):
        r = ctx.rng("cfg%d" % i)
        cases.append(dict(index=i, flag=r.choice(flags), ann=r.choice(anns), echo=r.choice(echos)))
    core.pmap(lambda c: check_case(ctx, binary, c), cases)


def replay(ctx, data):
    binary = build.build("bloch", "asan")
    check_case(ctx, binary, data["case"])
