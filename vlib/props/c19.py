"""C19: imports resolve deterministically, load once, detect cycles, check packages.

Random module trees are materialised on disk; harness/frontdump `load` drives the real
ModuleLoader; a reference implementation of the documented resolution algorithm (this file)
predicts the merged class/function order or the diagnostic kind."""
import os
import shutil

from .. import build, core

PROP = "C19"
RULE = ("random directory trees: up to 12 modules in packages of depth 0..3 spread over the entry "
        "directory, two search roots and the working directory; the same relative path present in "
        "several roots with distinguishable contents; symlinked duplicates; wildcard directories "
        "with non-.bloch files and sub-directories; diamonds, back edges (cycles), wrong/missing "
        "package lines, 0/1/2 mains; bloch.* packages (search paths first); optional implicit "
        "bloch/lang/Object.bloch. Distinct = distinct (tree, entry, search path list, cwd) "
        "configurations; non-trivial = at least one import.")
ASSUMPTIONS = ["merged order observed through the public ModuleLoader API (class/function names)",
               "a root whose package directory holds no .bloch file (for instance only a sub-package) does not "
               "answer a wildcard import: the search continues with the next root, as for a missing file",
               "a module that wildcard-imports its own package gets its siblings (every file is loaded once; the "
               "importing file is not a cycle with itself)",
               "kept out (not fixed by the docs): file names "
               "differing only by case, unreadable files",
               "when several problems coexist the reference reports the first one in the documented "
               "depth-first import order (dependencies before importers)"]

PKGS = [(), ("a",), ("a", "b"), ("util",), ("a", "b", "c"), ("bloch", "x"), ("zeta",),
        ("blochkit",), ("blochx", "y"), ("bloc",)]     # names that merely start like the reserved 'bloch' root


class LoadError(Exception):
    def __init__(self, kind):
        Exception.__init__(self, kind)
        self.kind = kind


def gen_tree(rng, root):
    """Create a random tree under `root`; returns config + metadata {canonical path: module}."""
    roots = dict(proj=os.path.join(root, "proj"), lib1=os.path.join(root, "lib1"),
                 lib2=os.path.join(root, "lib2"), cwd=os.path.join(root, "cwd"))
    for p in roots.values():
        os.makedirs(p)
    nmod = rng.randint(2, 12)
    mods = []
    for i in range(nmod):
        pkg = rng.choice(PKGS)
        mods.append(dict(id=i, name="M%d" % i, pkg=pkg, imports=[], places=[]))
    entry = dict(id="E", name="Main", pkg=rng.choice([(), (), ("a",)]), imports=[], places=[])
    # import graph: mostly forward edges (acyclic), occasionally a back edge
    everything = mods + [entry]
    for m in everything:
        k = rng.randint(0, 3)
        for _ in range(k):
            cand = [x for x in mods if x is not m]
            if not cand:
                break
            t = rng.choice(cand)
            back = isinstance(m["id"], int) and t["id"] <= m["id"]
            if back and rng.random() > 0.12:
                continue
            if rng.random() < 0.25 and t["pkg"] and t["pkg"] != m["pkg"]:
                m["imports"].append(("wild", t["pkg"]))
            elif m["pkg"] and len(t["pkg"]) > len(m["pkg"]) and t["pkg"][:len(m["pkg"])] == m["pkg"] \
                    and rng.random() < 0.6:
                # the same file named relative to the importer's own directory: 'import b.M;' from a/X.bloch
                # reaches a/b/M.bloch, whose package line says a.b, not b
                m["imports"].append(("sym", t["pkg"][len(m["pkg"]):], t["name"]))
                if rng.random() < 0.6:
                    entry["imports"].insert(0, ("sym", t["pkg"], t["name"]))   # ... after a correct import loaded it
            else:
                m["imports"].append(("sym", t["pkg"], t["name"]))
        if m["pkg"] and rng.random() < 0.12:
            m["imports"].append(("wild", m["pkg"]))      # a module that imports its own package
        if rng.random() < 0.07:
            m["imports"].append(("sym", ("nope",), "Missing"))
    files = {}

    def write(rootname, mod, variant, pkg_line=None, mains=0):
        d = os.path.join(roots[rootname], *mod["pkg"])
        os.makedirs(d, exist_ok=True)
        path = os.path.join(d, mod["name"] + ".bloch")
        declared = mod["pkg"] if pkg_line is None else pkg_line
        lines = []
        if declared:
            lines.append("package %s;" % ".".join(declared))
        for imp in mod["imports"]:
            if imp[0] == "wild":
                lines.append("import %s.*;" % ".".join(imp[1]))
            else:
                lines.append("import %s;" % ".".join(list(imp[1]) + [imp[2]]))
        cname = "K%s_%s" % (mod["id"], variant)
        lines.append("class %s { public constructor() -> %s = default; }" % (cname, cname))
        lines.append("function f%s_%s() -> void { }" % (mod["id"], variant))
        for j in range(mains):
            lines.append("function main() -> void { }")
        with open(path, "w") as f:
            f.write("\n".join(lines) + "\n")
        files[os.path.realpath(path)] = dict(mod=mod, cls=cname, fn="f%s_%s" % (mod["id"], variant),
                                             declared=tuple(declared), mains=mains)
        return path

    for m in mods:
        places = rng.sample(["proj", "lib1", "lib2", "cwd"], rng.choice([1, 1, 1, 2, 3]))
        for pl in places:
            bad = None
            r = rng.random()
            if r < 0.05:
                bad = ("wrong", "pkg")
            elif r < 0.08:
                bad = ()
            write(pl, m, pl, pkg_line=bad if bad is not None and tuple(bad) != m["pkg"] else None,
                  mains=1 if rng.random() < 0.04 else 0)
        m["places"] = places
    mains = rng.choice([1, 1, 1, 1, 1, 0, 2])
    entry_path = write("proj", entry, "entry", mains=mains)
    # clutter in package directories
    for rn in roots.values():
        for dirpath, dirs, fs in list(os.walk(rn)):
            if rng.random() < 0.3:
                with open(os.path.join(dirpath, "notes.txt"), "w") as f:
                    f.write("not a module\n")
            if rng.random() < 0.15:
                os.makedirs(os.path.join(dirpath, "sub.bloch"), exist_ok=True)  # a directory
            if rng.random() < 0.2:
                # editor backups and notes: the name contains ".bloch" but does not end in it
                with open(os.path.join(dirpath, rng.choice(["Util.bloch.orig", "M1.bloch.txt", "x.bloch~", ".bloch.swp"])), "w") as f:
                    f.write("this is not a module {{{\n")
    # a symlinked duplicate of one module under another name / root
    if mods and rng.random() < 0.3:
        m = rng.choice(mods)
        src = os.path.join(roots[m["places"][0]], *m["pkg"], m["name"] + ".bloch")
        other = [r for r in ("proj", "lib1", "lib2") if r not in m["places"]]
        if other and m["pkg"]:
            d = os.path.join(roots[other[0]], *m["pkg"])
            os.makedirs(d, exist_ok=True)
            try:
                os.symlink(src, os.path.join(d, m["name"] + ".bloch"))
            except OSError:
                pass
    # a second name for a module inside its own package directory (symlink): one file, two spellings
    if mods and rng.random() < 0.3:
        m = rng.choice(mods)
        d = os.path.join(roots[m["places"][0]], *m["pkg"])
        try:
            os.symlink(m["name"] + ".bloch", os.path.join(d, "Alias%s.bloch" % m["id"]))
        except OSError:
            pass
    # optional implicit root object
    if rng.random() < 0.4:
        where = rng.choice(["lib1", "lib2", "proj"])
        d = os.path.join(roots[where], "bloch", "lang")
        os.makedirs(d, exist_ok=True)
        p = os.path.join(d, "Object.bloch")
        with open(p, "w") as f:
            f.write("package bloch.lang;\nclass Object { public constructor() -> Object = default; }\n")
        files[os.path.realpath(p)] = dict(mod=dict(imports=[], pkg=("bloch", "lang"), name="Object"),
                                          cls="Object", fn=None, declared=("bloch", "lang"), mains=0)
    search = rng.choice([["lib1", "lib2"], ["lib2", "lib1"], ["lib1"], [], ["lib2"]])
    return dict(roots=roots, entry=entry_path, search=[roots[s] for s in search], cwd=roots["cwd"],
                files=files)


def reference(cfg):
    files = cfg["files"]
    order, cache, stack = [], set(), []

    def bases(parts, from_dir):
        if parts and parts[0] == "bloch":
            return cfg["search"] + [from_dir, cfg["cwd"]]
        return [from_dir] + cfg["search"] + [cfg["cwd"]]

    def resolve_import(parts, from_dir):
        rel = os.path.join(*parts) + ".bloch"
        for b in bases(parts, from_dir):
            cand = os.path.realpath(os.path.join(b, rel))
            if os.path.isfile(cand):
                return cand
        return None

    def resolve_pkg(parts, from_dir):
        for b in bases(parts, from_dir):
            cand = os.path.realpath(os.path.join(b, *parts))
            if not os.path.isdir(cand):
                continue
            mods = sorted(os.path.join(cand, n) for n in os.listdir(cand)
                          if n.endswith(".bloch") and os.path.isfile(os.path.join(cand, n)))
            if mods:
                return mods
            # a directory without module files offers nothing to load: the search goes on ("else the
            # configured search paths, else the working directory")
        return []

    def load_module(path):
        canon = os.path.realpath(path)
        if canon in stack:
            raise LoadError("cycle")
        if canon in cache:
            return
        stack.append(canon)
        meta = files[canon]
        parent = os.path.dirname(canon)
        for imp in meta["mod"]["imports"]:
            if imp[0] == "wild":
                targets = resolve_pkg(list(imp[1]), parent)
                if not targets:
                    raise LoadError("notfound")
                for t in targets:
                    ct = os.path.realpath(t)
                    if ct == canon:
                        continue     # its own package: the file itself is already being loaded, the rest is not
                    load_module(t)
                    if files[ct]["declared"] != tuple(imp[1]):
                        raise LoadError("package")
            else:
                parts = list(imp[1]) + [imp[2]]
                t = resolve_import(parts, parent)
                if t is None:
                    raise LoadError("notfound")
                load_module(t)
                if files[os.path.realpath(t)]["declared"] != tuple(imp[1]):
                    raise LoadError("package")
        cache.add(canon)
        order.append(canon)
        stack.pop()

    entry_dir = os.path.dirname(os.path.realpath(cfg["entry"]))
    obj = resolve_import(["bloch", "lang", "Object"], entry_dir)
    if obj:
        load_module(obj)
    load_module(cfg["entry"])
    mains = sum(files[p]["mains"] for p in order)
    if mains == 0:
        raise LoadError("nomain")
    if mains > 1:
        raise LoadError("multimain")
    classes = [files[p]["cls"] for p in order]
    fns = []
    for p in order:
        if files[p]["fn"]:
            fns.append(files[p]["fn"])
        fns += ["main"] * files[p]["mains"]
    return classes, fns


def kind_of_error(msg):
    if "import cycle" in msg:
        return "cycle"
    if "not found" in msg and "import" in msg:
        return "notfound"
    if "resolved to package" in msg:
        return "package"
    if "No 'main'" in msg:
        return "nomain"
    if "Multiple 'main'" in msg:
        return "multimain"
    return "other"


def check_one(ctx, binary, index):
    rng = ctx.rng(index)
    root = core.scratch_dir("mods")
    try:
        cfg = gen_tree(rng, root)
        try:
            exp = ("ok",) + reference(cfg)
        except LoadError as e:
            exp = ("error", e.kind)
        if exp[0] == "error" and exp[1].startswith("kept-out"):
            ctx.count("kept_out")
            return
        cmd = [binary, "load"]
        for s in cfg["search"]:
            cmd += ["-I", s]
        # the entry file is named absolutely or relative to the working directory
        cmd.append(cfg["entry"] if index % 2 else os.path.relpath(cfg["entry"], cfg["cwd"]))
        r = core.run(cmd, cwd=cfg["cwd"], timeout=60)
        nimports = sum(len(m["mod"]["imports"]) for m in cfg["files"].values())
        descr = dict(index=index, expected=list(exp), search=[os.path.basename(s) for s in cfg["search"]],
                     files=sorted(os.path.relpath(p, root) for p in cfg["files"]))
        ctx.note_case((index, exp), nontrivial=nimports > 0, sample=descr)
        cls = r.classify()
        if cls[0] != "ok":
            key = cls[1] if cls[0] == "sanitizer" else "crash:%s" % (cls[0],)
            ctx.violation(key, "module loader died: %r" % (cls,), dict(index=index),
                          {"stderr.txt": r.stderr[-6000:]})
            return
        import json
        out = [json.loads(l) for l in r.stdout.splitlines() if l.startswith("{")]
        if not out:
            ctx.inconclusive_because("no output from frontdump load")
            return
        o = out[0]
        # the same request repeated on the same loader object
        shape = [("error", x["msg"]) if "error" in x else ("ok", x.get("classes"), x.get("functions"))
                 for x in out if "error" in x or "classes" in x]
        ctx.count("loader_reuse_compared")
        if len(shape) >= 2 and shape[0] != shape[1]:
            ctx.violation("load:reuse:%s-then-%s" % (shape[0][0], shape[1][0]),
                          "the same loader answered the same request differently the second time: %r then %r" %
                          (shape[0], shape[1]), dict(index=index))
        if "error" in o:
            got = ("error", kind_of_error(o["msg"]))
            ctx.count("diag_" + got[1])
            if o["error"] != "Semantic":
                ctx.violation("load:category", "loader diagnostic has category %s: %s" %
                              (o["error"], o["msg"][:200]), dict(index=index))
        else:
            got = ("ok", o["classes"], o["functions"])
            ctx.count("loaded_ok")
        if exp == got:
            return
        if exp[0] != got[0] or exp[0] == "error":
            key = "load:verdict:%s-vs-%s" % (exp[1] if exp[0] == "error" else "ok",
                                             got[1] if got[0] == "error" else "ok")
        elif sorted(exp[1]) != sorted(got[1]):
            dup = len(got[1]) != len(set(got[1]))
            key = "load:duplicate" if dup else "load:wrong-root"
        else:
            key = "load:order"
        ctx.violation(key, "expected %r, loader produced %r" % (exp, got), dict(index=index))
    finally:
        shutil.rmtree(root, ignore_errors=True)


def run(ctx):
    ctx.rule = RULE
    ctx.assumptions = ASSUMPTIONS
    binary = build.build("frontdump", "asan")
    n = ctx.n(800, 12000)
    core.pmap(lambda i: check_one(ctx, binary, i), range(n))


def replay(ctx, data):
    binary = build.build("frontdump", "asan")
    check_one(ctx, binary, data["case"]["index"])
