"""C11: garbage collection is unobservable under every schedule, and race-free.

(1) deterministic schedules (ASan build, timer disabled): a program is run with no collection
    (reference), a collection at EVERY statement boundary, at every single boundary {i}
    (exhaustive over single collections up to a cap), and at random subsets, each with and
    without the natural triggers; stdout/status must equal the reference and the collector's
    external-holder audit must be 0 in every collection event.
(2) the real timer thread under ThreadSanitizer with a sub-millisecond period; output must equal
    the reference, no TSan report; the evidence lists how many timer-triggered collections were
    observed and at how many distinct boundaries.
(3) thread lifecycle (harness/evalmon, TSan + ASan): construct/execute/destroy loops over
    programs that end normally, by error, or without classes; started == exited afterwards."""
import json
import os
import re

from .. import build, core

PROP = "C11"
RULE = ("programs built from GC hazard snippets: temporaries in argument lists while a later "
        "argument executes statements, objects under construction whose constructor arguments "
        "execute statements, chained calls on fresh objects, objects reachable only from fields / "
        "statics / return values / arrays, cyclic garbage with and without destructors, allocation "
        "bursts (> 16 objects), explicit destroy, runtime errors in the middle of construction, objects that own "
        "qubits or @tracked qubits directly or through a base class (garbage and live cycles of them, plain objects "
        "reachable only through them; <= 11 qubits). The compared outcome is echo output, exit status, warnings, the "
        "OpenQASM listing and the traced simulator operations. "
        "Schedules per program: none, all, every single boundary (cap 160 quick / 600 thorough), "
        "random subsets p in {0.02,0.2,0.5}, each with and without natural triggers; real timer "
        "50-500 us under TSan. Distinct = distinct (program, schedule) pairs; non-trivial = at "
        "least one collection actually ran with live heap objects.")
ASSUMPTIONS = ["a schedule is a subset of statement boundaries (the interpreter polls the request flag only "
               "at the top of exec); forced through the guarded BLOCH_VERIF_GC hook",
               "schedules with two or more collections are sampled, not enumerated",
               "TSan only sees synchronisation it intercepts; no uninstrumented locks are involved",
               "liveness ('the timer is always stopped') is restated as: after execute returns or throws "
               "and the evaluator is destroyed, started == exited and the process has one thread"]

PRELUDE = """\
function tr(int v) -> int {
    int t0 = v + 0;
    return t0;
}
function spin(int n) -> int {
    int s = 0;
    for (int i = 0; i < n; i = i + 1) {
        s = s + i;
    }
    return s;
}
class Node {
    public int v;
    public Node next;
    public Node other;
    public static Node keep;
    public static int made = 0;
    public constructor(int v) -> Node {
        this.v = v;
        Node.made = Node.made + 1;
        return this;
    }
    public function val() -> int {
        int w = this.v;
        return w;
    }
    public function sum() -> int {
        int s = this.v;
        Node c = this.next;
        int guard = 0;
        while (c != null && guard < 6) {
            s = s + c.v;
            c = c.next;
            guard = guard + 1;
        }
        return s;
    }
    public function grow(int k) -> Node {
        Node n = new Node(this.v + k);
        n.next = this;
        return n;
    }
}
class Loud {
    public int id;
    public Loud peer;
    public constructor(int id) -> Loud {
        this.id = id;
        return this;
    }
    public destructor() -> void {
        echo("~Loud" + this.id);
    }
}
class Guard {
    public constructor() -> Guard = default;
    public destructor() -> void {
        echo("~Guard");
    }
}
class LoudKid extends Loud {
    public int extra = 1;
    public constructor(int id) -> LoudKid {
        super(id);
        return this;
    }
}
class Pair {
    public Node a;
    public Node b;
    public constructor(Node a, Node b) -> Pair {
        int z = spin(2);
        this.a = a;
        this.b = b;
        return this;
    }
    public function total() -> int {
        return this.a.v + this.b.v;
    }
}
class Wrap<T> {
    public T item;
    public constructor(T item) -> Wrap<T> {
        this.item = item;
        return this;
    }
    public function get() -> T {
        return this.item;
    }
}
class QBase {
    public qubit q;
    public QBase peer;
    public Node kid;
    public constructor() -> QBase = default;
}
class QSub extends QBase {
    public int tag = 1;
    public constructor() -> QSub {
        super();
        return this;
    }
}
class TOwn {
    @tracked public qubit t;
    public TOwn peer;
    public Node kid;
    public constructor() -> TOwn = default;
}
class TSub extends TOwn {
    public constructor() -> TSub {
        super();
        return this;
    }
}
class TBase {
    public TBase parent;
    public int v;
    public constructor(int v) -> TBase {
        this.v = v;
        return this;
    }
}
class TFork extends TBase {
    public TBase left;
    public TBase right;
    public constructor(int v) -> TFork {
        super(v);
        return this;
    }
}
function mkTree(int v) -> TFork {
    // children point back at the root through a field they inherit from TBase
    TFork f = new TFork(v);
    TFork a = new TFork(v + 1);
    TFork b = new TFork(v + 2);
    a.parent = f;
    b.parent = f;
    f.left = a;
    f.right = b;
    return f;
}
function useT(TFork t, int y) -> int {
    return t.v + t.left.v * 10 + t.right.parent.v * 100 + y;
}
class Hold {
    public Hold peer;
    public Hold next;
    public QBase owned;
    public Loud bell;
    public constructor() -> Hold = default;
}
function hops(int n) -> int {
    // an unreachable cycle a <-> b from which a qubit owner is n holders away (holders allocated first)
    Hold a = new Hold();
    Hold b = new Hold();
    a.peer = b;
    b.peer = a;
    Hold cur = b;
    for (int i = 0; i < n; i = i + 1) {
        Hold w = new Hold();
        cur.next = w;
        cur = w;
    }
    cur.bell = new Loud(n + 40);
    cur.owned = new QBase();
    x(cur.owned.q);
    return n;
}
function qgarbage(int k) -> int {
    for (int i = 0; i < k; i = i + 1) {
        QSub a = new QSub();
        QSub b = new QSub();
        a.peer = b;
        b.peer = a;
        x(a.q);
    }
    return k;
}
function tgarbage(int k) -> int {
    for (int i = 0; i < k; i = i + 1) {
        TSub a = new TSub();
        TOwn b = new TOwn();
        a.peer = b;
        b.peer = a;
        x(a.t);
        measure a.t;
    }
    return k;
}
function mk(int v) -> Node {
    Node fresh = new Node(v);
    return fresh;
}
function use(Node x, int y) -> int {
    int q = y + 0;
    return x.v + q;
}
function use2(Node x, Node y) -> int {
    return x.v * 10 + y.v;
}
function garbage(int k) -> int {
    for (int i = 0; i < k; i = i + 1) {
        Node a = new Node(i);
        Node b = new Node(i + 100);
        a.next = b;
        b.next = a;
    }
    return k;
}
function burst(int k) -> int {
    int s = 0;
    for (int i = 0; i < k; i = i + 1) {
        Node t = new Node(i);
        s = s + t.v;
    }
    return s;
}
"""

SNIPPETS = [
    ("pending-arg", ["echo(use(new Node({a}), spin({b})));"]),
    ("pending-arg-garbage", ["echo(use(new Node({a}), garbage({b})));"]),
    ("pending-two-args", ["echo(use2(new Node({a}), mk({b})));"]),
    ("pending-arg-burst", ["echo(use(mk({a}), burst(18)));"]),
    ("ctor-arg-stmt", ["Node {v} = new Node(tr({a}));", "echo({v}.v);"]),
    ("ctor-arg-spin", ["Node {v} = new Node(spin({b}) + {a});", "echo({v}.val());"]),
    ("ctor-args-objects", ["Pair {v} = new Pair(mk({a}), new Node(spin({b})));", "echo({v}.total());"]),
    ("ctor-args-objects-garbage", ["Pair {v} = new Pair(new Node({a}), new Node(garbage({b})));", "echo({v}.total());"]),
    ("chained-fresh", ["echo(new Node({a}).sum());"]),
    ("chained-grow", ["echo(new Node({a}).grow({b}).grow(spin(2)).sum());"]),
    ("chained-mk", ["echo(mk({a}).grow(garbage({b})).sum());"]),
    ("field-only", ["Node {v} = new Node({a});", "{v}.next = new Node({b});", "{v}.next.next = new Node(spin(3));", "echo({v}.sum());"]),
    ("static-only", ["Node.keep = new Node({a});", "int {w} = garbage({b});", "echo(Node.keep.v + {w});"]),
    ("return-value", ["Node {v} = mk({a});", "int {w} = burst(17);", "echo({v}.v + {w});"]),
    ("cycle-garbage", ["int {w} = garbage({b});", "echo({w});"]),
    ("cycle-live", ["Node {v} = new Node({a});", "Node {v}b = new Node({b});", "{v}.next = {v}b;", "{v}b.next = {v};", "int {w} = garbage(3);", "echo({v}.sum());"]),
    ("cycle-then-drop", ["Node {v} = new Node({a});", "{v}.other = new Node({b});", "{v}.other.other = {v};", "destroy {v};", "echo(spin(2));"]),
    ("loud-acyclic", ["Loud {v} = new Loud({a});", "echo(spin(2));", "destroy {v};", "echo(\"after\");"]),
    ("loud-cycle", ["Loud {v} = new Loud({a});", "Loud {v}b = new Loud({b});", "{v}.peer = {v}b;", "{v}b.peer = {v};", "destroy {v};", "echo(garbage(2));"]),
    ("loud-scope", ["{", "    Loud {v} = new Loud({a});", "    echo(spin(2));", "}", "echo(\"out\");"]),
    ("generic-wrap", ["Wrap<Node> {v} = new Wrap<Node>(mk({a}));", "int {w} = garbage({b});", "echo({v}.get().v + {w});"]),
    ("generic-pending", ["echo(new Wrap<Node>(new Node(spin({b}) + {a})).get().sum());"]),
    ("burst", ["echo(burst(20));"]),
    ("reassign", ["Node {v} = new Node({a});", "{v} = new Node(garbage({b}));", "echo({v}.v);"]),
    ("error-mid-construct", ["Pair {v} = new Pair(new Node({a}), mk(spin(2) / 0));", "echo(1);"]),
    ("nested-pending", ["echo(use(new Node({a}), use(new Node({b}), garbage(2))));"]),
    # objects that own qubits (directly or through a base class): the collector must neither release
    # their qubits early nor lose what is reachable only through them
    ("q-cycle-garbage", ["int {w} = qgarbage({b});", "echo({w});", "qubit {v};", "x({v});", "bit {v}m = measure {v};", "echo({v}m);"]),
    ("t-cycle-garbage", ["int {w} = tgarbage({b});", "echo({w} + garbage(2));"]),
    ("q-kid-only", ["QBase {v} = new QBase();", "{v}.kid = new Node({a});", "int {w} = garbage({b});", "echo({v}.kid.v + {w});"]),
    ("qsub-kid-only", ["QSub {v} = new QSub();", "{v}.kid = mk({a});", "int {w} = burst(17);", "echo({v}.kid.sum() + {w});"]),
    ("t-kid-only", ["TOwn {v} = new TOwn();", "{v}.kid = new Node({a});", "x({v}.t);", "int {w} = garbage({b});",
                    "bit {v}m = measure {v}.t;", "echo({v}.kid.v + {w});", "echo({v}m);"]),
    ("q-live-cycle", ["QSub {v} = new QSub();", "QSub {v}b = new QSub();", "{v}.peer = {v}b;", "{v}b.peer = {v};",
                      "{v}b.kid = new Node({a});", "int {w} = garbage({b});", "x({v}b.q);", "echo({v}.peer.kid.v + {w});"]),
    ("q-cycle-then-scope-exit", ["{", "    QSub {v} = new QSub();", "    QSub {v}b = new QSub();", "    {v}.peer = {v}b;",
                                 "    {v}b.peer = {v};", "    x({v}.q);", "}", "echo(garbage({b}));", "qubit {v}n;", "bit {v}m = measure {v}n;", "echo({v}m);"]),
    ("q-behind-holders", ["int {w} = hops({b});", "echo({w} + garbage(3));", "qubit {v};", "bit {v}m = measure {v};", "echo({v}m);"]),
    ("q-behind-holders-burst", ["int {w} = hops({b} + 1);", "echo({w} + burst(18));"]),
    ("pending-tree-backpointers", ["echo(useT(mkTree({a}), garbage({b}) + burst(18)));"]),
    ("pending-tree-nested", ["echo(useT(mkTree({a}), useT(mkTree({b}), burst(20))));"]),
    ("tree-in-field-only", ["Pair {v} = new Pair(mk({a}), mk({b}));", "TFork {v}t = mkTree({a});", "int {w} = burst(18);", "echo(useT({v}t, {w}) + {v}.total());"]),
    # a destructor inherited from a base class (the class of the cycle's members declares none itself)
    ("loudkid-cycle", ["LoudKid {v} = new LoudKid({a});", "LoudKid {v}b = new LoudKid({b});", "{v}.peer = {v}b;", "{v}b.peer = {v};",
                       "destroy {v};", "echo(garbage(2));", "echo(\"mid\");"]),
    ("loudkid-cycle-scope", ["{", "    LoudKid {v} = new LoudKid({a});", "    Loud {v}b = new LoudKid({b});", "    {v}.peer = {v}b;",
                             "    {v}b.peer = {v};", "}", "echo(burst(18));"]),
    ("loudkid-acyclic", ["LoudKid {v} = new LoudKid({a});", "echo(spin(2));", "destroy {v};", "echo(garbage(2));"]),
    ("fieldless-guard", ["Guard {v} = new Guard();", "int {w} = garbage({b}) + burst(18);", "destroy {v};", "echo({w});"]),
    ("fieldless-guard-scope", ["{", "    Guard {v} = new Guard();", "    echo(burst(20));", "}", "echo(\"left\");"]),
    ("binary-operands", ["echo(new Node({a}).val() + garbage({b}) + new Node({b}).val());"]),
]


def gen_program(rng, scale=1, allow_error=True):
    n = rng.randint(3, 7) * scale
    body = []
    tags = []
    uid = 0
    qubits = 0
    for _ in range(n):
        tag, lines = rng.choice(SNIPPETS)
        if tag == "error-mid-construct" and (not allow_error or rng.random() < 0.8):
            continue
        uid += 1
        m = dict(a=rng.randint(1, 9), b=rng.randint(1, 4), v="o%d" % uid, w="w%d" % uid)
        # objects that own qubits are never swept, so their qubits stay allocated: bound the register
        cost = {"q-cycle-garbage": 2 * m["b"] + 1, "t-cycle-garbage": 2 * m["b"], "q-kid-only": 1, "qsub-kid-only": 1,
                "t-kid-only": 1, "q-live-cycle": 2, "q-cycle-then-scope-exit": 3, "q-behind-holders": 2,
                "q-behind-holders-burst": 1}.get(tag, 0)
        if qubits + cost > 11:
            continue
        qubits += cost
        for l in lines:
            body.append("    " + re.sub(r"\{(\w+)\}", lambda mo: str(m[mo.group(1)]), l))
        tags.append(tag)
        if tag == "error-mid-construct":
            break
    body.append("    echo(Node.made);")
    return PRELUDE + "function main() -> void {\n" + "\n".join(body) + "\n}\n", tags


def outcome(r, qasm=None, events=()):
    c = r.classify()
    if c[0] == "ok":
        # everything a user can observe: echo output, warnings, the OpenQASM listing, and (through the
        # trace) the operations performed on the simulator
        warns = tuple(re.sub(r"\x1b\[[0-9;]*m", "", l) for l in r.stderr.split("\n") if "[WARNING]" in l)
        ops = tuple((e["op"], e["q0"], e["q1"], e["out"]) for e in events if e["k"] == "sim")
        return ("ok", r.stdout, warns, qasm, ops)
    if c[0] == "diag":
        return ("diag", c[1], c[2], c[4][:60])
    return tuple(c[:2])


def gc_events(events):
    return [e for e in events if e["k"] == "gc"]


def run_schedule(binary, src, spec, timeout=60, extra_env=None):
    env = {"BLOCH_VERIF_GC": spec}
    if extra_env:
        env.update(extra_env)
    env.setdefault("BLOCH_VERIF_SEED", "7")
    # stall_s: an interpreter blocked on its own timer thread (or vice versa) burns no CPU at all
    r, events, qasm, _ = core.run_bloch(binary, src, env=env, trace=True, timeout=timeout, stall_s=20)
    r.qasm = qasm
    return r, events


def deterministic_part(ctx, binary):
    nprog = ctx.n(30, 400)
    cap = ctx.n(160, 600)
    progs = []
    for i in range(nprog):
        src, tags = gen_program(ctx.rng(i))
        progs.append((i, src, tags))
    # references
    refs = {}

    def ref_one(p):
        i, src, tags = p
        r, ev = run_schedule(binary, src, "none")
        return i, r, ev

    for i, r, ev in core.pmap(ref_one, progs):
        b = [e for e in ev if e["k"] == "exec_end"]
        refs[i] = (outcome(r, r.qasm, ev), b[0]["boundaries"] if b else None, r)
    jobs = []
    for i, src, tags in progs:
        out, B, r = refs[i]
        if out[0] not in ("ok", "diag"):
            ctx.violation("crash:%s" % (out[1],), "reference run crashed: %r" % (out,), dict(index=i),
                          {"prog.bloch": src, "stderr.txt": r.stderr[-6000:]})
            continue
        if B is None:
            # ended by error: take the boundary count from an 'all' run's last gc event
            B = 400
        specs = ["all", "all+natural", "natural"]
        for b in range(min(B + 1, cap)):
            specs.append("set:%d" % b)
        rng = ctx.rng("sched%d" % i)
        for p in (0.02, 0.2, 0.5):
            for k in range(ctx.n(2, 5)):
                specs.append("rand:%d:%s" % (rng.randrange(1 << 30), p))
                specs.append("rand:%d:%s+natural" % (rng.randrange(1 << 30), p))
        # pairs of boundaries (two collections)
        for k in range(ctx.n(10, 60)):
            a, c = rng.randrange(B + 1), rng.randrange(B + 1)
            specs.append("set:%d,%d" % (a, c))
        for s in specs:
            jobs.append((i, src, tags, s))

    def one(job):
        i, src, tags, spec = job
        r, ev = run_schedule(binary, src, spec)
        return job, r, ev

    for (i, src, tags, spec), r, ev in core.pmap(one, jobs):
        ref_out = refs[i][0]
        out = outcome(r, r.qasm, ev)
        gcs = gc_events(ev)
        ran = [g for g in gcs if g["objects"] > 0 and g["trigger"] != "final"]
        ctx.note_case((i, spec), nontrivial=bool(ran), sample=dict(program=i, schedule=spec, snippets=tags))
        ctx.count("schedules_run")
        ctx.count("collections_observed", len(gcs))
        ctx.count("collections_with_live_heap", len(ran))
        ctx.count("objects_swept", sum(g["swept"] for g in gcs))
        kind = "single" if re.match(r"set:\d+$", spec) else spec.split(":")[0].split("+")[0]
        ctx.count("schedule_" + kind)
        files = {"prog.bloch": src, "stdout.txt": r.stdout[-3000:], "stderr.txt": r.stderr[-4000:],
                 "reference.txt": repr(ref_out), "gc_events.json": json.dumps(gcs[:200])}
        case = dict(index=i, schedule=spec)
        held = [g for g in gcs if g["held"] > 0]
        if held:
            holders = sorted(set(h for g in held for h in g["holders"].split(",")))
            ctx.violation("gc:audit:" + "+".join(holders)[:40],
                          "a collection at boundary %d (%s) wiped %d object(s) still held by the "
                          "interpreter (%s); snippets %s" % (held[0]["b"], held[0]["trigger"], held[0]["held"],
                                                             held[0]["holders"], tags), case, files)
        if out != ref_out:
            trig = sorted(set(g["trigger"] for g in ran)) or ["none"]
            if out[0] in ("sanitizer", "signal", "raw", "timeout"):
                key = "gc:crash:%s" % (out[1] if len(out) > 1 else out[0])
            else:
                key = "gc:output:" + "+".join(trig)
            ctx.violation(key, "schedule %s changed the outcome: %s -> %s (snippets %s)" %
                          (spec, str(ref_out)[:100], str(out)[:100], tags), case, files)


def timer_part(ctx):
    binary = build.build("bloch", "tsan")
    plain_ref = build.build("bloch", "asan")
    nprog = ctx.n(12, 120)
    reps = ctx.n(4, 12)
    periods = [50, 100, 200, 500] if ctx.quick() else [50, 73, 100, 137, 200, 350, 500, 1000, 5000]
    jobs = []
    refs = {}
    for i in range(nprog):
        src, tags = gen_program(ctx.rng("timer%d" % i), scale=6, allow_error=(i % 4 == 0))
        r, ev = run_schedule(plain_ref, src, "none")
        refs[i] = outcome(r, r.qasm, ev)
        for k in range(reps):
            jobs.append((i, src, tags, periods[(i + k) % len(periods)], k))
    distinct_boundaries = set()
    reports = {}

    def one(job):
        i, src, tags, period, k = job
        r, ev = run_schedule(binary, src, "timer", timeout=180,
                             extra_env={"BLOCH_VERIF_GC_PERIOD_US": str(period)})
        return job, r, ev

    total_timer = 0
    for (i, src, tags, period, k), r, ev in core.pmap(one, jobs):
        gcs = gc_events(ev)
        timer = [g for g in gcs if g["trigger"] == "timer"]
        total_timer += len(timer)
        for g in timer:
            distinct_boundaries.add((i, g["b"]))
        ctx.note_case((i, "timer", period, k), nontrivial=bool(timer), sample=None)
        ctx.count("timer_runs")
        end = [e for e in ev if e["k"] == "exec_end"]
        files = {"prog.bloch": src, "stderr.txt": r.stderr[-12000:], "stdout.txt": r.stdout[-2000:]}
        case = dict(index=i, period=period, timer=True)
        tsan = [s for s in r.san if s["key"].startswith("tsan")]
        for s in tsan:
            reports.setdefault(s["key"], 0)
            reports[s["key"]] += 1
            ctx.violation("gc:" + s["key"], "ThreadSanitizer report with the real timer (period %d us): %s" %
                          (period, s["text"][:400]), case, files)
        out = outcome(r, r.qasm, ev)
        if not tsan and out != refs[i]:
            if out[0] == "timeout":
                if r.stalled:
                    ctx.violation("gc:deadlock:timer", "with the timer at %d us the run stopped consuming CPU and never "
                                  "ended (reference run of the same program ends normally): the interpreter and its "
                                  "timer thread block each other" % period, case, files)
                else:
                    ctx.inconclusive_because("timer run timed out")
                continue
            held = [g for g in gcs if g["held"] > 0]
            ctx.violation("gc:output:timer" if out[0] in ("ok", "diag") else "gc:crash:%s" % (out[1],),
                          "with the timer at %d us the outcome changed: %s -> %s (audit held=%d)" %
                          (period, str(refs[i])[:100], str(out)[:100], len(held)), case, files)
        if end and end[0]["started"] != end[0]["exited"]:
            ctx.violation("gc:thread-leak:execute-end", "timer thread not stopped when execute returned: %r" % end[0],
                          case, files)
    ctx.counters["timer_collections_observed"] = total_timer
    ctx.counters["timer_distinct_boundaries"] = len(distinct_boundaries)
    floor = 200 if ctx.quick() else 2000
    if len(distinct_boundaries) < floor:
        ctx.inconclusive_because("timer-triggered collections landed on only %d distinct boundaries (floor %d)"
                                 % (len(distinct_boundaries), floor))


def lifecycle_part(ctx):
    for flavour in ("tsan", "asan"):
        binary = build.build("evalmon", flavour)
        iters = ctx.n(400, 6000) if flavour == "tsan" else ctx.n(300, 3000)
        r = core.run([binary, "lifecycle", str(iters), str(ctx.seed)], timeout=900,
                     env={"BLOCH_VERIF_GC_PERIOD_US": "100"}, stall_s=20)
        cls = r.classify()
        if cls[0] == "sanitizer":
            ctx.violation("gc:" + cls[1], "sanitizer report in the lifecycle loop (%s): %s" %
                          (flavour, r.san[0]["text"][:400]), dict(lifecycle=flavour), {"stderr.txt": r.stderr[-12000:]})
            continue
        if cls[0] != "ok":
            if cls[0] == "timeout" and r.stalled:
                ctx.violation("gc:deadlock:lifecycle", "the construct/execute/destroy loop (%s) stopped consuming CPU and "
                              "never ended: an evaluator could not stop its timer thread" % flavour,
                              dict(lifecycle=flavour), {"stderr.txt": r.stderr[-4000:]})
            elif cls[0] == "timeout":
                ctx.inconclusive_because("lifecycle loop timed out (%s)" % flavour)
            else:
                ctx.violation("gc:lifecycle:%s" % (cls[0],), "lifecycle loop failed: %r %s" % (cls, r.stderr[-300:]),
                              dict(lifecycle=flavour), {"stderr.txt": r.stderr[-12000:]})
            continue
        for line in r.stdout.splitlines():
            try:
                o = json.loads(line)
            except ValueError:
                continue
            if o.get("violation"):
                ctx.violation(o["key"], o["what"], dict(lifecycle=flavour))
            if o.get("summary"):
                ctx.count("lifecycle_iterations_" + flavour, o["iterations"])
                ctx.count("lifecycle_threads_started", o["started"])
                with ctx.lock:
                    ctx.evaluations += o["iterations"]
                    ctx.distinct_extra += o.get("distinct", 0)


def run(ctx):
    ctx.rule = RULE
    ctx.assumptions = ASSUMPTIONS
    binary = build.build("bloch", "asan")
    deterministic_part(ctx, binary)
    timer_part(ctx)
    lifecycle_part(ctx)


def replay(ctx, data):
    case = data["case"]
    if "lifecycle" in case:
        lifecycle_part(ctx)
        return
    if case.get("timer"):
        binary = build.build("bloch", "tsan")
        src, tags = gen_program(ctx.rng("timer%d" % case["index"]), scale=6, allow_error=(case["index"] % 4 == 0))
        r, ev = run_schedule(binary, src, "timer", timeout=180, extra_env={"BLOCH_VERIF_GC_PERIOD_US": str(case["period"])})
        print(r.classify(), r.stderr[-3000:])
        for s in r.san:
            ctx.violation("gc:" + s["key"], s["text"][:300], case)
        return
    binary = build.build("bloch", "asan")
    src, tags = gen_program(ctx.rng(case["index"]))
    r0, ev0 = run_schedule(binary, src, "none")
    r, ev = run_schedule(binary, src, case["schedule"])
    print(src[len(PRELUDE):])
    print("reference:", outcome(r0, r0.qasm, ev0))
    print("schedule :", outcome(r, r.qasm, ev), [g for g in gc_events(ev) if g["held"]])
    if outcome(r, r.qasm, ev) != outcome(r0, r0.qasm, ev0) or any(g["held"] for g in gc_events(ev)):
        ctx.violation(data["key"], "replayed", case)
