"""C14: render a syntax tree with the parentheses the documented precedence rules require (and with
redundant ones), parse it with the real lexer+parser, walk the AST through the public visitor and
compare the s-expression with the generator's own."""
import re

from .. import core, front
from ..gen_frontend import BINOPS, Gen, fix_multi, sexp

PROP = "C14"
RULE = ("(a) exhaustive: every ordered pair of binary operators x child side, every unary/cast/"
        "postfix/measure form as child and parent; (b) random expression trees (depth<=5) in echo/"
        "initialiser/argument/index positions; (c) random whole programs: statements (all forms of "
        "grammar.md incl. for with declaration/expression/empty initialiser, ternary statement, "
        "destroy), annotated functions, classes with every legal member prefix order, generics. "
        "Each tree is rendered twice (minimal and redundant parentheses). Distinct = distinct "
        "rendered sources; non-trivial = the tree has at least one operator or declaration.")
ASSUMPTIONS = ["AST observed through the public ASTVisitor (harness/frontdump.cpp), parentheses erased",
               "kept out where the documents do not fix the reading: cast applied directly to a "
               "postfix chain, expression statements that begin like a declaration "
               "(Identifier < ... > Identifier), constant negative indices, else-if chains",
               "visibility is always written (the default visibility is not documented)"]


def wrap_expr(src):
    return "function main() -> void {\n    echo(%s);\n}\n" % src


def wrap_sexp(sx):
    return "(program (function main (params) (void) (block (echo %s))))" % sx


def classify_key(expected, got, tree):
    if isinstance(got, dict) and "error" in got:
        return "parse:reject"
    return "parse:tree"


def run(ctx):
    ctx.rule = RULE
    ctx.assumptions = ASSUMPTIONS
    cases = []   # (kind, source, expected sexp, descr)
    a, b, c = ("var", "a"), ("var", "b"), ("var", "c")
    # ---- (a) exhaustive operator pairs
    kids = []
    for op, _ in BINOPS:
        kids.append(("bin:" + op, lambda op=op: ("bin", op, ("var", "p"), ("var", "q"))))
    for u in "-!~":
        kids.append(("un:" + u, lambda u=u: ("un", u, ("var", "p"))))
    kids.append(("cast", lambda: ("cast", ("prim", "int"), ("var", "p"))))
    kids.append(("post", lambda: ("post", "++", ("var", "p"))))
    kids.append(("call", lambda: ("call", ("var", "f"), [("var", "p")])))
    kids.append(("idx", lambda: ("idx", ("var", "p"), ("lit", "int", "0"))))
    kids.append(("mem", lambda: ("mem", ("var", "p"), "v")))
    kids.append(("measure", lambda: ("measure", ("var", "p"))))
    kids.append(("assign", lambda: ("assign", "p", ("var", "q"))))
    kids.append(("new", lambda: ("new", ("named", "Foo"), [])))
    kids.append(("arr", lambda: ("arr", [("var", "p")])))
    g = Gen(ctx.rng("pairs"), redundant=False)
    gr = Gen(ctx.rng("pairs-r"), redundant=True)
    for op, _ in BINOPS:
        for kname, mk in kids:
            for side in ("left", "right"):
                t = ("bin", op, mk(), c) if side == "left" else ("bin", op, c, mk())
                for gen, tag in ((g, "min"), (gr, "red")):
                    cases.append(("pair", wrap_expr(gen.rx(t)), wrap_sexp(sexp(t)),
                                  "%s/%s/%s/%s" % (op, kname, side, tag)))
    for u in "-!~":
        for kname, mk in kids:
            t = ("un", u, mk())
            cases.append(("pair", wrap_expr(g.rx(t)), wrap_sexp(sexp(t)), "un%s/%s" % (u, kname)))
    for kname, mk in kids:
        if kname.split(":")[0] in ("bin", "un", "cast", "assign", "measure"):
            t = ("cast", ("prim", "float"), mk())
            cases.append(("pair", wrap_expr(g.rx(t)), wrap_sexp(sexp(t)), "cast/" + kname))
        for pk in ("call", "idx", "mem", "post"):
            child = mk()
            if pk == "call":
                t = ("call", child, [a])
            elif pk == "idx":
                t = ("idx", child, a)
            elif pk == "mem":
                t = ("mem", child, "v")
            else:
                t = ("post", "--", child)
            if kname == "cast":
                continue  # cast followed by a postfix operator: reading not fixed by the docs
            cases.append(("pair", wrap_expr(g.rx(t)), wrap_sexp(sexp(t)), "%s/%s" % (pk, kname)))
    ctx.count("exhaustive_pairs", len(cases))
    # ---- (b) random expression trees
    n_expr = ctx.n(3000, 120000)
    for i in range(n_expr):
        r = ctx.rng("e%d" % i)
        gen = Gen(r, redundant=(i % 2 == 1))
        t = gen.expr(r.randint(2, 5))
        pos = r.randint(0, 3)
        sx = sexp(t)
        if pos == 0:
            src, ex = wrap_expr(gen.rx(t, 1)), wrap_sexp(sx)
        elif pos == 1:
            src = "function main() -> void {\n    int z = %s;\n}\n" % gen.rx(t, 1)
            ex = "(program (function main (params) (void) (block (vardecl (prim int) z %s))))" % sx
        elif pos == 2:
            src = "function main() -> void {\n    f(1, %s, 2);\n}\n" % gen.rx(t, 1)
            ex = ('(program (function main (params) (void) (block (expr (call (var f) (lit int "1") '
                  '%s (lit int "2"))))))' % sx)
        else:
            if t[0] == "un" and t[1] == "-" and t[2][0] == "lit":
                t = t[2]
                sx = sexp(t)
            src = "function main() -> void {\n    echo(arr[%s]);\n}\n" % gen.rx(t, 1)
            ex = "(program (function main (params) (void) (block (echo (idx (var arr) %s)))))" % sx
        cases.append(("expr", src, ex, "expr%d" % i))
    # ---- (c) random programs
    n_prog = ctx.n(1500, 40000)
    for i in range(n_prog):
        r = ctx.rng("p%d" % i)
        gen = Gen(r, redundant=(i % 2 == 1))
        ex, src = gen.program()
        cases.append(("prog", src, fix_multi(ex), "prog%d" % i))
    res = front.run_batch("ast", [c[1] for c in cases], per_proc=500 if ctx.quick() else 3000)
    for (kind, src, ex, descr), r in zip(cases, res):
        ex = fix_multi(ex)
        if front.skipped(r):
            ctx.count("not_judged_after_repeated_hangs")
            continue
        if r["crash"] is not None:
            ctx.violation("crash:%s" % (r["crash"][1] if len(r["crash"]) > 1 else r["crash"][0],),
                          "parser crashed: %r" % (r["crash"],), dict(source=src, expected=ex),
                          {"stderr.txt": r["stderr"]})
            continue
        got = r["lines"][0] if r["lines"] else None
        ctx.note_case(src, sample=dict(kind=kind, source=src[:300], sexp=ex[:300]))
        ctx.count("trees_" + kind)
        if got == ex:
            continue
        if isinstance(got, dict) and "error" in got:
            construct = reject_bucket(src, got)
            ctx.violation("parse:reject:" + construct,
                          "documented construct rejected (%s): %s" % (descr, got.get("msg", "")[:160]),
                          dict(source=src, expected=ex), {"prog.bloch": src})
        else:
            ctx.violation("parse:tree:" + tree_bucket(ex, got, descr),
                          "parsed tree differs (%s): expected %s got %s" %
                          (descr, first_diff(ex, str(got))[0], first_diff(ex, str(got))[1]),
                          dict(source=src, expected=ex), {"prog.bloch": src, "got.txt": str(got)})


def first_diff(a, b):
    i = 0
    while i < min(len(a), len(b)) and a[i] == b[i]:
        i += 1
    s = max(0, i - 40)
    return a[s:i + 80], b[s:i + 80]


def reject_bucket(src, err):
    msg = err.get("msg", "")
    if "'@' to begin annotation" in msg:
        return "annotation-on-method"
    if "type arguments" in msg or "Expected type" in msg:
        return "comparison-read-as-generic-type"
    line = err.get("line", 0)
    lines = src.split("\n")
    text = lines[line - 1] if 0 < line <= len(lines) else ""
    if text.lstrip().startswith("for") or "for (" in text:
        return "for-initialiser"
    m = re.search(r"Expected ([^\"]{1,40})", msg)
    return "other:" + (m.group(1).strip().replace(" ", "-")[:30] if m else "unknown")


def tree_bucket(ex, got, descr):
    if descr.startswith(("expr", "prog")):
        a, b = first_diff(ex, got)
        m = re.search(r"\((\w+)", a[min(40, len(a) - 1):] or a)
        return "random:" + (m.group(1) if m else "x")
    return descr.rsplit("/", 1)[0] if descr.count("/") >= 2 else descr


def replay(ctx, data):
    src = data["case"]["source"]
    ex = data["case"]["expected"]
    res = front.run_batch("ast", [src])
    got = res[0]["lines"][0] if res[0]["lines"] else None
    print(src)
    print("expected:", ex)
    print("got     :", got)
    if got != ex:
        ctx.violation(data["key"], "replayed mismatch", data["case"])
