"""C15: the lexer is lossless and token positions are exact.

Oracle: paint every reported token text onto a blank canvas at its reported (line, column); the
painted cells must equal the source, and every unpainted source character must be whitespace or
part of a // comment.  That is losslessness and position exactness at once.  Columns count
characters (a tab or CR is one column); a newline inside a string/char token continues the token
on the next line at column 1."""
import re

from .. import core, front

PROP = "C15"
RULE = ("random token sequences over the whole alphabet (identifiers, every keyword, all literal "
        "forms incl. strings/chars holding newlines, tabs, quotes, '//' and operator characters, "
        "every operator, unknown bytes) joined by random separators (none, spaces, tabs, LF, CRLF, "
        "comments); maximal-munch adjacency pairs; single-character edits of the example programs; "
        "plus parse-diagnostic probes whose offending token position is known. Distinct = distinct "
        "source strings the lexer accepts; non-trivial = at least 2 tokens.")
ASSUMPTIONS = ["token list obtained from the public Lexer API through harness/frontdump.cpp",
               "sources the lexer rejects (Lexical error) are outside this property and only counted",
               "columns count bytes/characters; no tab expansion"]

KEYWORDS = ("null int long float string char qubit bit boolean true false void function return if "
            "else for while measure final reset default quantum tracked shots class public private "
            "protected static extends abstract virtual override super this import package new "
            "constructor destructor destroy echo").split()
OPS = ["=", "==", "!", "!=", "+", "++", "-", "--", "->", "*", "/", "%", ">", ">=", "<", "<=", "&",
       "&&", "|", "||", "^", "~", "?", ":", ".", ";", ",", "@", "(", ")", "{", "}", "[", "]"]
MUNCH = ["+++", "-->", "<==", "&&&", "|||", "!==", "--->", "++++", ">>=", "<-", "=>", "===", "+-+",
         "a--b", "a-->b", "x+++y", "1b1b", "0b&1b", "a.b.c", "1f.5f"]
UNKNOWN = ["#", "$", "`", "\\", "\x7f", "\xe9", "\x01", "\x00", "\x00"]
STR_BODIES = ["", "a", "a b", "//not a comment", "a\nb", "\n", "a\n\nb\n", "\t", "it's", "x+=1;",
              "/* */", "a\r\nb", "  ", "\\", "caf\xe9", "@tracked", "line1\n    line2"]
CHAR_BODIES = ["a", " ", '"', "\n", "\t", "/", "0", "\\", "\xe9"]
SEPS = ["", "", " ", " ", "  ", "\t", "\n", "\n\n", "\r\n", " // c\n", "//\n", " \t ", "\n    ",
        " // \"quoted\" + ops ' \n", "\n//x\n//y\n"]


def gen_source(rng):
    n = rng.randint(2, 14)
    parts = []
    for _ in range(n):
        k = rng.randint(0, 11)
        if k == 0:
            tok = rng.choice(["a", "foo_1", "_x", "classy", "Z9", "newton", "i", "__"])
        elif k == 1:
            tok = rng.choice(KEYWORDS)
        elif k == 2:
            tok = rng.choice(["0", "7", "42", "123456", "1.5f", "3f", "0.0f", "10.25f", "5L", "0L",
                              "0b", "1b"])
        elif k == 3:
            tok = '"' + rng.choice(STR_BODIES) + '"'
        elif k == 4:
            tok = "'" + rng.choice(CHAR_BODIES) + "'"
        elif k in (5, 6, 7):
            tok = rng.choice(OPS)
        elif k == 8:
            tok = rng.choice(MUNCH)
        elif k == 9:
            tok = rng.choice(UNKNOWN)
        else:
            tok = rng.choice(OPS) + rng.choice(OPS)
        parts.append(tok)
        parts.append(rng.choice(SEPS))
    if rng.random() < 0.3:
        parts.append("// trailing comment without newline")
    return rng.choice(SEPS) + "".join(parts)


def far_sources():
    """Tokens on lines and columns beyond 16 bits."""
    return [" " * 70040 + "farcol + 1", "\n" * 70001 + "   farline;", "a " * 40000 + "\n" * 3 + "\"s\" b",
            "\n" * 65535 + "x\n" + "y", " " * 65534 + "ab cd"]


def positions(src):
    """(line, col) of every character of src."""
    out = []
    line, col = 1, 1
    for ch in src:
        out.append((line, col))
        if ch == "\n":
            line += 1
            col = 1
        else:
            col += 1
    return out, (line, col)


GAP = re.compile(r"^(?:[ \t\r\n\f\v]|//[^\n]*)*$")


def check_tokens(src, toks):
    """Return (key, what) of the first defect or None."""
    pos, end = positions(src)
    index = {p: i for i, p in enumerate(pos)}
    covered = [False] * len(src)
    last = -1
    for t in toks:
        if t["t"] == 84:  # Eof
            continue
        text = t["v"]
        p = (t["l"], t["c"])
        if p not in index:
            return ("lex:position:off-canvas", "token %r reported at %r which is not a source "
                    "position" % (text, p))
        i = index[p]
        if src[i:i + len(text)] != text:
            kind = "string" if text.startswith('"') else "char" if text.startswith("'") else "other"
            # is the text somewhere else (position wrong) or nowhere (lossy)?
            if src.find(text, max(0, last)) >= 0:
                after = "after-multiline-token" if "\n" in src[:src.find(text, max(0, last))] and \
                    any("\n" in x["v"] for x in toks) else "plain"
                return ("lex:position:%s:%s" % (kind, after),
                        "token %r reported at Ln %d, Col %d but the source has %r there" %
                        (text, p[0], p[1], src[i:i + len(text)]))
            return ("lex:lossy:" + kind, "token text %r does not occur in the source" % text)
        if i <= last:
            return ("lex:overlap", "token %r overlaps or precedes the previous token" % text)
        for j in range(i, i + len(text)):
            covered[j] = True
        last = i + len(text) - 1
    # every uncovered stretch must be whitespace/comment
    j = 0
    while j < len(src):
        if covered[j]:
            j += 1
            continue
        k = j
        while k < len(src) and not covered[k]:
            k += 1
        if not GAP.match(src[j:k]):
            return ("lex:lossy:dropped-text", "source text %r is not covered by any token and is "
                    "not whitespace/comment" % src[j:k][:40])
        j = k
    return None


def run(ctx):
    ctx.rule = RULE
    ctx.assumptions = ASSUMPTIONS
    n = ctx.n(20000, 400000)
    sources = []
    for i in range(n):
        sources.append(gen_source(ctx.rng(i)))
    sources += far_sources()
    # single-character edits of the seed programs
    import glob
    import os
    seeds = sorted(glob.glob(os.path.join(core.REPO, "examples", "*.bloch")))
    edits = []
    for sp in seeds:
        with open(sp, encoding="latin-1") as f:
            text = f.read()
        r = ctx.rng("edit" + sp)
        for _ in range(ctx.n(60, 1500)):
            i = r.randrange(len(text))
            op = r.randint(0, 2)
            ch = r.choice(['"', "'", "\n", "/", "+", "a", " ", "@", "\t"])
            if op == 0:
                edits.append(text[:i] + text[i + 1:])
            elif op == 1:
                edits.append(text[:i] + ch + text[i:])
            else:
                edits.append(text[:i] + ch + text[i + 1:])
        edits.append(text)
    sources += edits
    res = front.run_batch("tokens", sources, per_proc=1000 if ctx.quick() else 4000)
    rejected = 0
    for src, r in zip(sources, res):
        if front.skipped(r):
            ctx.count("not_judged_after_repeated_hangs")
            continue
        if r["crash"] is not None:
            ctx.violation("crash:%s" % (r["crash"][1] if len(r["crash"]) > 1 else r["crash"][0],),
                          "lexer crashed: %r" % (r["crash"],), dict(source=src),
                          {"stderr.txt": r["stderr"]})
            continue
        toks = r["lines"]
        if toks and isinstance(toks[-1], dict) and "error" in toks[-1]:
            rejected += 1
            continue
        if any(not isinstance(t, dict) or "t" not in t for t in toks):
            ctx.inconclusive_because("unparsable frontdump output")
            continue
        ctx.note_case(src, nontrivial=len(toks) >= 3,
                      sample=dict(source=src[:120], tokens=[(t["v"], t["l"], t["c"]) for t in toks[:8]]))
        ctx.count("tokens_checked", len(toks))
        if any("\n" in t["v"] for t in toks):
            ctx.count("sources_with_multiline_tokens")
        bad = check_tokens(src, toks)
        if bad:
            ctx.violation(bad[0], bad[1], dict(source=src))
    ctx.count("rejected_by_lexer", rejected)
    diag_probes(ctx)


def diag_probes(ctx):
    """The position printed in a parse diagnostic is where the offending token really is."""
    from .. import build
    binary = build.build("frontdump", "asan")
    probes = []
    for i in range(ctx.n(300, 5000)):
        r = ctx.rng("diag%d" % i)
        lines = []
        for _ in range(r.randint(0, 4)):
            lines.append(r.choice(["int x%d = 1;" % r.randint(0, 99), 'string s%d = "a b";' % r.randint(0, 99),
                                   'echo("multi\nline");', "// comment", "", "\tint t%d = 2;" % r.randint(0, 99),
                                   "echo('\n');", 'echo("a\n\n  b" + "c");']))
        pad = r.choice(["", " ", "    ", "\t", "\t\t "])
        body = "function main() -> void {\n" + "\n".join(lines) + "\n" + pad
        src = body + ")" + "\n}\n"
        pos, _ = positions(body)
        line, col = (pos[-1][0], pos[-1][1] + 1) if pos and body[-1] != "\n" else \
            ((pos[-1][0] + 1, 1) if pos else (1, 1))
        probes.append((src, line, col))
    res = front.run_batch("ast", [p[0] for p in probes], per_proc=500)
    for (src, line, col), r in zip(probes, res):
        if r["crash"] is not None or not r["lines"]:
            continue
        e = r["lines"][-1]
        ctx.note_case(src, sample=None)
        ctx.count("diag_probes")
        if not (isinstance(e, dict) and e.get("error") == "Parse"):
            continue
        if (e["line"], e["col"]) != (line, col):
            multi = "after-multiline-token" if re.search(r'"[^"\n]*\n|\'\n', src) else "plain"
            ctx.violation("lex:diag-position:" + multi,
                          "parse diagnostic points at Ln %d, Col %d; the offending ')' is at Ln %d, "
                          "Col %d" % (e["line"], e["col"], line, col), dict(source=src))


def replay(ctx, data):
    src = data["case"]["source"]
    res = front.run_batch("tokens", [src])
    toks = res[0]["lines"]
    print(toks)
    bad = check_tokens(src, [t for t in toks if isinstance(t, dict) and "t" in t])
    if bad:
        ctx.violation(bad[0], bad[1], dict(source=src))
