"""C13: the front end is total.  libFuzzer (ASan+UBSan) over lexer->parser->analyser with a reused
analyser instance, systematic single-token edits / truncations / byte noise of the seed programs
through frontdump (ASan) and through the real CLI (diagnostic shape), module loader on real files."""
import glob
import os
import re
import shutil

from .. import build, core, front
from .c15 import positions

PROP = "C13"
RULE = ("(1) libFuzzer+ASan+UBSan, lexer->parser->analyser in process, one long-lived analyser "
        "re-checked against an accepted and a rejected probe after every input, seeds = examples, "
        "stdlib, generated programs; (2) every single-token deletion / duplication / replacement by "
        "12 representative tokens (quick: every 3rd token), truncation at byte offsets, and random "
        "byte noise of every seed program through frontdump analyse (batch, shared analyser) under "
        "ASan; (3) rejected inputs re-run through the real CLI and the module loader: exit 1, the "
        "stop line and exactly one Lexical/Parse/Semantic diagnostic. Distinct = distinct input "
        "byte strings (fuzz: libFuzzer executions are counted, its corpus size is reported); "
        "non-trivial = not byte-identical to a seed.")
ASSUMPTIONS = ["nesting depth above 64 (brackets, prefix-operator runs, assignment chains) is outside "
               "the stated bound and skipped; the stack limit is raised to 1 GiB as well",
               "UBSan pointer-overflow and object-size are off (formed-but-unread m_tokens[-1]; "
               "clang-14 empty-class false alarm); value-UB checks are not crash-class",
               "a libFuzzer -timeout=25 hit is re-run once in isolation before it is reported as a hang"]

REPL = [";", "(", ")", "{", "}", "=", "<", ">", "@", "class", "x", "1", "\"s\"", "measure", "new", ".",
        "[", "]", "->", "final", "static", "return", ",", "+", "super", "this", "null", "destroy", "super.m()",
        "this.f", "extends", "import a.b;"]


def seed_sources():
    out = []
    for pat in ("examples/*.bloch", "examples/multifile/*.bloch", "examples/multifile/*/*.bloch",
                "library/bloch/lang/*.bloch", "library/bloch/*/*.bloch"):
        for p in sorted(glob.glob(os.path.join(core.REPO, pat))):
            with open(p, encoding="latin-1") as f:
                out.append((os.path.relpath(p, core.REPO), f.read()))
    return out


def generated_seeds(ctx, n):
    from .. import qlang
    from ..gen_frontend import Gen
    out = []
    for i in range(n):
        r = ctx.rng("seedgen%d" % i)
        if i % 2:
            out.append(("gen-front-%d" % i, Gen(r).program()[1]))
        else:
            out.append(("gen-q-%d" % i, qlang.generate(r, "qasm")[1]))
    return out


def token_spans(src, toks):
    pos, _ = positions(src)
    index = {p: i for i, p in enumerate(pos)}
    spans = []
    for t in toks:
        if t["t"] == 84:
            continue
        i = index.get((t["l"], t["c"]))
        if i is None:
            continue
        spans.append((i, i + len(t["v"])))
    return spans


def edits_of(src, spans, rng, step):
    out = []
    for k, (a, b) in enumerate(spans):
        if k % step:
            continue
        out.append(("del@%d" % k, src[:a] + src[b:]))
        out.append(("dup@%d" % k, src[:b] + " " + src[a:b] + src[b:]))
        for rep in (REPL if step == 1 else rng.sample(REPL, 6)):
            if rep != src[a:b]:
                out.append(("rep@%d:%s" % (k, rep), src[:a] + rep + src[b:]))
    return out


def run(ctx):
    ctx.rule = RULE
    ctx.assumptions = ASSUMPTIONS
    seeds = seed_sources()
    gens = generated_seeds(ctx, ctx.n(12, 60))
    run_fuzz(ctx, seeds + gens)
    run_edits(ctx, seeds, gens)


# ---------------------------------------------------------------------------------------------
def run_fuzz(ctx, seeds):
    binary = build.build("fuzz_front", "fuzz")
    root = core.scratch_dir("fuzz")
    corpus = os.path.join(root, "seeds")
    os.makedirs(corpus)
    for i, (name, src) in enumerate(seeds):
        with open(os.path.join(corpus, "s%03d" % i), "wb") as f:
            f.write(src.encode("latin-1", "replace"))
    procs = 8 if ctx.quick() else 16
    runs = ctx.n(40000, 1500000)

    def one(i):
        work = os.path.join(root, "w%d" % i)
        os.makedirs(work)
        art = os.path.join(root, "art%d-" % i)
        cmd = [binary, "-runs=%d" % runs, "-seed=%d" % (ctx.seed * 131 + i + 1), "-max_len=4096",
               "-timeout=25", "-rss_limit_mb=6000", "-artifact_prefix=" + art, "-print_final_stats=1",
               "-verbosity=0", work, corpus]
        env = {"ASAN_OPTIONS": "abort_on_error=0:exitcode=97:detect_leaks=0:quarantine_size_mb=8:"
                               "allocator_may_return_null=1",
               "UBSAN_OPTIONS": "print_stacktrace=1:halt_on_error=1"}
        limit = 900 if ctx.quick() else 5 * 3600
        r = core.run(cmd, env=env, timeout=limit, cpu_s=limit, retry_timeout=False)
        return i, r, art

    total_exec = 0
    for i, r, art in core.pmap(one, range(procs), workers=procs):
        m = re.search(r"stat::number_of_executed_units:\s*(\d+)", r.stderr)
        ex = int(m.group(1)) if m else 0
        total_exec += ex
        ctx.count("fuzz_executions", ex)
        m = re.search(r"VERIF-FUZZ-STATS inputs=(\d+) accepted=(\d+) lexical=(\d+) parse=(\d+) "
                      r"semantic=(\d+) skipped_deep=(\d+)", r.stderr)
        if m:
            for k, v in zip(("fuzz_inputs", "fuzz_accepted", "fuzz_lexical", "fuzz_parse",
                             "fuzz_semantic", "fuzz_skipped_deep"), m.groups()):
                ctx.count(k, int(v))
        m = re.search(r"stat::new_units_added:\s*(\d+)", r.stderr)
        if m:
            ctx.count("fuzz_new_corpus_units", int(m.group(1)))
        arts = glob.glob(art + "*")
        if r.rc == 0 and not arts:
            continue
        if r.timeout or r.sig == 24:
            ctx.inconclusive_because("fuzzer process %d hit the wall-clock / CPU watchdog" % i)
            continue
        # a finding: key from the report
        key, what = fuzz_key(r.stderr)
        data = b""
        if arts:
            with open(arts[0], "rb") as f:
                data = f.read()
        if key.startswith("hang"):
            # re-run the artifact once, alone, before believing a hang
            rr = core.run([binary, "-timeout=60", arts[0]] if arts else [binary], timeout=120,
                          retry_timeout=False)
            if rr.rc == 0:
                ctx.count("fuzz_unconfirmed_timeouts")
                continue
        ctx.violation(key, what, dict(fuzz_input=data.decode("latin-1")),
                      {"stderr.txt": r.stderr[-20000:], "input.bin": data.decode("latin-1")})
    with ctx.lock:
        ctx.evaluations += total_exec
        ctx.distinct_extra += ctx.counters.get("fuzz_new_corpus_units", 0)
    if total_exec < procs * runs // 2:
        ctx.inconclusive_because("fuzzers executed only %d inputs" % total_exec)
    shutil.rmtree(root, ignore_errors=True)


def fuzz_key(stderr):
    m = re.search(r"VERIF-FUZZ-VIOLATION (\S+) (.*)", stderr)
    if m:
        return m.group(1), m.group(2)[:300]
    san = core.parse_sanitizer(stderr)
    fatal = [s for s in san if s["fatal"]] or san
    if fatal:
        return fatal[0]["key"], fatal[0]["text"][:300]
    if "ERROR: libFuzzer: timeout" in stderr:
        return "hang:front", "libFuzzer timeout"
    if "ERROR: libFuzzer: out-of-memory" in stderr:
        return "oom:front", "libFuzzer rss limit"
    if "ERROR: libFuzzer: deadly signal" in stderr:
        frames = core._bloch_frames(stderr)
        return "signal:" + "<-".join(frames), "deadly signal"
    return "fuzz:unknown-failure", stderr[-300:]


# ---------------------------------------------------------------------------------------------
def run_edits(ctx, seeds, gens):
    step = 3 if ctx.quick() else 1
    base = seeds + gens
    res = front.run_batch("tokens", [s for _, s in base])
    cases = []
    for (name, src), r in zip(base, res):
        toks = [t for t in r["lines"] if isinstance(t, dict) and "t" in t]
        spans = token_spans(src, toks)
        rng = ctx.rng("edits" + name)
        for tag, text in edits_of(src, spans, rng, step):
            cases.append((name + ":" + tag, text))
        # truncation at byte offsets
        tstep = max(1, len(src) // ctx.n(40, 400))
        for off in range(0, len(src), tstep):
            cases.append((name + ":trunc@%d" % off, src[:off]))
        # byte noise
        for j in range(ctx.n(20, 300)):
            b = list(src)
            for _ in range(rng.randint(1, 4)):
                b[rng.randrange(len(b))] = chr(rng.choice([0, 1, 9, 10, 13, 34, 39, 47, 64, 92, 127, 200, 255,
                                                           rng.randrange(256)]))
            cases.append((name + ":noise%d" % j, "".join(b)))
    # pathological shapes (within the nesting bound)
    shapes = {
        "deep-parens": "function main() -> void { int x = " + "(" * 60 + "1" + ")" * 60 + "; }",
        "deep-unary": "function main() -> void { int x = " + "-" * 60 + "1; }",
        "deep-blocks": "function main() -> void " + "{" * 60 + "}" * 60,
        "deep-index": "function main() -> void { int[] a = {1}; echo(a" + "[a" * 50 + "[0]" + "]" * 50 + "); }",
        "long-chain": "function main() -> void { int x = 1" + " + 1" * 3000 + "; }",
        "many-stmts": "function main() -> void { " + "int a; " * 0 + "echo(1); " * 4000 + "}",
        "deep-generic": "class B<T> { public constructor() -> B<T> = default; } function main() -> void { "
                        + "B<" * 40 + "int" + ">" * 40 + " b = null; }",
        "assign-chain": "function main() -> void { int a = 0; a = " + "a = " * 50 + "1; }",
        "empty": "", "only-ws": " \n\t ", "only-comment": "// x", "nul": "\x00", "bom": "\xef\xbb\xbffunction main() -> void { }",
        "unterminated-string": "function main() -> void { echo(\"abc); }",
        "shots-huge": "@shots(99999999999) function main() -> void { }",
        "int-huge": "function main() -> void { int a = 99999999999999999999; }",
        "array-huge": "function main() -> void { int[99999999999] a; }",
        "float-huge": "function main() -> void { float f = 9" + "9" * 60 + ".0f; }",
        "long-huge": "function main() -> void { long l = 99999999999999999999999L; }",
        "index-huge": "function main() -> void { int[] a = {1}; echo(a[99999999999]); }",
        "class-cycle": "class A extends B { public constructor() -> A = default; } class B extends A { "
                       "public constructor() -> B = default; } function main() -> void { }",
        "self-extends": "class A extends A { public constructor() -> A = default; } function main() -> void { }",
        "dup-class": "class A { public constructor() -> A = default; } class A { public constructor() -> A = default; } function main() -> void { }",
        "generic-self": "class A<T extends A<T>> { public constructor() -> A<T> = default; } function main() -> void { A<A<int>> a = null; }",
        "derived-first": "class D extends B { public constructor() -> D { super(); return this; } } class B { public constructor() -> B = default; } function main() -> void { D d = new D(); }",
    }
    # generic type arguments of every arity against each other, with 'this', null, diamonds and
    # fresh objects in every typed position (verdicts do not matter here, only that there is one)
    trng = ctx.rng("typestress")
    gens = {"Box": ["T"], "Pair": ["A", "B"], "Tri": ["X", "Y", "Z"], "Plain": []}

    def tyname(cls, inside):
        ps = gens[cls]
        if gens[inside] and trng.random() < 0.15:
            return trng.choice(gens[inside])             # a bare type parameter of the enclosing class
        if not ps:
            return cls
        pool = ["int", "string", "Plain", "Box<int>"] + list(gens[inside])
        k = trng.random()
        if k < 0.12:
            return cls                                   # raw use of a generic class
        if k < 0.22:
            n = trng.choice([0, 1, 2, 3, 4])             # wrong arity
        else:
            n = len(ps)
        if n == 0:
            return cls + "<>"
        return "%s<%s>" % (cls, ", ".join(trng.choice(pool) for _ in range(n)))

    def texpr(inside):
        k = trng.randrange(7)
        if k == 0:
            return "this"
        if k == 1:
            return "null"
        if k == 2:
            return "new %s()" % tyname(trng.choice(list(gens)), inside)
        if k == 3:
            return "this.f0"
        if k == 4:
            return "new %s<>()" % trng.choice(["Box", "Pair", "Tri"])
        if k == 5:
            return "this.m0()"
        return "(%s)" % texpr(inside)
    for ti in range(ctx.n(250, 5000)):
        parts = []
        for cls, ps in gens.items():
            def bound(pn):
                k = trng.random()
                if k < 0.55:
                    return pn
                b = trng.choice(["Plain", pn, trng.choice(ps), "Box<%s>" % pn, "Box<int>", "Pair<%s, %s>" % (pn, pn), "Nope"])
                return "%s extends %s" % (pn, b)
            head = "class %s%s {" % (cls, "<%s>" % ", ".join(bound(x) for x in ps) if ps else "")
            self_t = "%s%s" % (cls, "<%s>" % ", ".join(ps) if ps else "")
            body = ["    public constructor() -> %s = default;" % self_t]
            for mi in range(trng.randint(1, 3)):
                t = tyname(trng.choice(list(gens)), cls)
                pos = trng.randrange(4)
                if mi == 0:
                    body.insert(0, "    public %s f0;" % t)
                if pos == 0:
                    body.append("    public function m%d() -> %s { return %s; }" % (mi, t, texpr(cls)))
                elif pos == 1:
                    body.append("    public function m%d() -> int { %s x = %s; return 1; }" % (mi, t, texpr(cls)))
                elif pos == 2:
                    body.append("    public function m%d() -> int { %s x = null; x = %s; return 1; }" % (mi, t, texpr(cls)))
                else:
                    body.append("    public function m%d(%s p) -> int { return this.m%d(%s); }" % (mi, t, mi, texpr(cls)))
            parts.append(head + "\n" + "\n".join(body) + "\n}")
        trng.shuffle(parts)
        shapes["typestress-%d" % ti] = "\n".join(parts) + "\nfunction main() -> void { Box<int> b = new Box<int>(); }\n"
    # 'super' and 'this' where no class is around, in every typed position
    for nm, expr in (("super", "super"), ("super-call", "super.run()"), ("super-field", "super.v"), ("this", "this"),
                     ("this-field", "this.v"), ("this-call", "this.run()")):
        shapes["outside-class:%s:init" % nm] = "function main() -> void { int a = %s; }\n" % expr
        shapes["outside-class:%s:arg" % nm] = "function f(int k) -> int { return k; }\nfunction main() -> void { int a = f(%s); }\n" % expr
        shapes["outside-class:%s:return" % nm] = "function f() -> int { return %s; }\nfunction main() -> void { }\n" % expr
        shapes["outside-class:%s:assign" % nm] = "function main() -> void { int a = 0; a = %s; }\n" % expr
        shapes["outside-class:%s:stmt" % nm] = "function main() -> void { %s; }\n" % expr
        shapes["outside-class:%s:operand" % nm] = "function main() -> void { int a = 1 + %s; echo(%s); }\n" % (expr, expr)
        shapes["static-method:%s" % nm] = ("class K { public int v; public constructor() -> K = default; public function run() -> int { return 1; } "
                                           "public static function s() -> int { int a = %s; return 1; } }\nfunction main() -> void { }\n" % expr)
    shapes["import-name-too-long"] = "import %s;\nfunction main() -> void { }\n" % ("N" * 300)
    shapes["import-path-too-long"] = "import %s.M;\nfunction main() -> void { }\n" % ".".join(["p" * 200] * 30)
    shapes["import-wild-too-long"] = "import %s.*;\nfunction main() -> void { }\n" % ("W" * 300)
    # annotation lists: repeated and mixed annotations in front of functions, members and variables
    anns = ["@quantum", "@tracked", "@shots(2)", "@shots", "@unknown", "@quantum()"]
    arng = ctx.rng("annotations")
    for ai in range(ctx.n(60, 600)):
        lst = " ".join(arng.choice(anns) for _ in range(arng.randint(2, 4)))
        target = arng.choice(["function f() -> void { }", "function main() -> void { }", "int x;", "qubit q;",
                              "class K { %s public function m() -> bit { return 0b; } public constructor() -> K = default; }",
                              "class K { %s public qubit q; public constructor() -> K = default; }"])
        if "%s" in target:
            text = target % lst + "\nfunction main() -> void { }\n"
        elif target.startswith("function"):
            text = lst + " " + target + ("\nfunction main() -> void { }\n" if "main" not in target else "\n")
        else:
            text = "function main() -> void { %s %s }\n" % (lst, target)
        shapes["annotations-%d" % ai] = text
    shapes["missing-import"] = "import nowhere.Thing;\nfunction main() -> void { }\n"
    shapes["bad-token-after-import"] = "import bloch.lang.Object;\nfunction main() -> void { int x = ; }\n"
    # inheritance cycles with tails leading into them, under many names (class registries are hash
    # maps: which class is visited first depends on the names)
    crng = ctx.rng("cycles")
    names = ["A", "B", "C", "LeafE", "Node", "Zed", "Alpha", "Mid", "Q1", "Q2", "Base", "Derived", "X9", "Kappa"]
    for ci in range(ctx.n(40, 400)):
        k = crng.randint(1, 4)          # cycle length
        t = crng.randint(0, 3)          # tail classes leading into the cycle
        ns = crng.sample(names, k + t)
        cyc, tail = ns[:k], ns[k:]
        decl = []
        for i, nme in enumerate(cyc):
            decl.append("class %s extends %s { public constructor() -> %s = default; }" % (nme, cyc[(i + 1) % k], nme))
        prev = cyc[0]
        for nme in tail:
            decl.append("class %s extends %s { public constructor() -> %s = default; }" % (nme, prev, nme))
            prev = nme
        crng.shuffle(decl)
        shapes["cycle-%d-%d-%d" % (k, t, ci)] = "\n".join(decl) + "\nfunction main() -> void { }\n"
    # compile-time integer expressions (array sizes, @shots-like constants) over extreme operands:
    # the analyser folds them itself, on host ints
    xrng = ctx.rng("constexpr")
    ext = ["0", "1", "(-1)", "2", "2147483647", "(-2147483647 - 1)", "(-2147483647)", "65536", "46341", "3"]

    def cexpr(d):
        if d <= 0 or xrng.random() < 0.3:
            return xrng.choice(ext + ["lo", "hi", "m1", "z"])
        f = xrng.randrange(8)
        if f == 0:
            return "-" + cexpr(d - 1) if xrng.random() < 0.5 else "(-(" + cexpr(d - 1) + "))"
        if f == 1:
            return "(int)(" + cexpr(d - 1) + ")"
        return "(" + cexpr(d - 1) + " " + xrng.choice("+-*/%%//") + " " + cexpr(d - 1) + ")"
    for ci in range(ctx.n(300, 6000)):
        e = cexpr(xrng.randint(1, 3))
        pos = xrng.randrange(3)
        pre = ("final int lo = -2147483647 - 1; final int hi = 2147483647; final int m1 = -1; final int z = 0; ")
        if pos == 0:
            body = pre + "int[%s] a;" % e
        elif pos == 1:
            body = pre + "final int n = %s; int[n] a;" % e
        else:
            body = pre + "final int n = %s; final int k = n %s m1; float[k] f;" % (e, xrng.choice("/%*"))
        shapes["constexpr-%d" % ci] = "function main() -> void { %s }\n" % body
    for k, v in shapes.items():
        cases.append(("shape:" + k, v))
    res = front.run_batch("analyse", [c[1] for c in cases], per_proc=600 if ctx.quick() else 3000,
                          timeout=600)
    rejected = []
    for (name, src), r in zip(cases, res):
        ctx.note_case(src, sample=dict(edit=name, source_head=src[:100]))
        kind = name.split(":")[1].split("@")[0]
        ctx.count("edit_" + re.sub(r"\d+$", "", kind))
        if front.skipped(r):
            ctx.count("not_judged_after_repeated_hangs")
            continue
        if r["crash"] is not None:
            c = r["crash"]
            if c[0] == "timeout":
                key = "hang:front:" + re.sub(r"[-\d]+$", "", kind)
            elif c[0] == "sanitizer":
                key = c[1]
            elif c[0] == "signal":
                key = "signal:%s:%s" % (c[1], "<-".join(core._bloch_frames(r["stderr"])) or kind)
            else:
                key = "crash:%r" % (c,)
            ctx.violation(key, "front end died on %s: %r" % (name, c), dict(source=src, name=name),
                          {"stderr.txt": r["stderr"], "input.bloch": src})
            continue
        verdicts = [l for l in r["lines"] if isinstance(l, dict)]
        leak = [l for l in verdicts if "state_leak" in l]
        raw = [l for l in verdicts if "raw_exception" in l]
        errs = [l for l in verdicts if "error" in l]
        acc = [l for l in verdicts if "accepted" in l]
        if leak:
            ctx.violation("analyser:state-leak", "analyser unusable after %s: %r" % (name, leak[0]),
                          dict(source=src, name=name), {"input.bloch": src})
        if raw:
            ctx.violation("raw:" + re.sub(r"[^A-Za-z_:]", "", raw[0]["raw_exception"])[:40],
                          "front end surfaced a raw C++ exception on %s: %s" %
                          (name, raw[0]["raw_exception"]), dict(source=src, name=name),
                          {"input.bloch": src})
            continue
        if len(errs) + len(acc) != 1:
            ctx.violation("diag:count", "%s produced %d verdicts" % (name, len(errs) + len(acc)),
                          dict(source=src, name=name), {"input.bloch": src})
            continue
        if errs:
            ctx.count("verdict_" + errs[0]["error"])
            if errs[0]["error"] not in ("Lexical", "Parse", "Semantic"):
                ctx.violation("diag:category:" + errs[0]["error"], "front end diagnostic of category "
                              "%s on %s" % (errs[0]["error"], name), dict(source=src, name=name),
                              {"input.bloch": src})
            rejected.append((name, src, errs[0]["error"]))
        else:
            ctx.count("verdict_accepted")
    run_cli_shapes(ctx, rejected, shapes)


def run_cli_shapes(ctx, rejected, shapes):
    """Rejected inputs through the real CLI (module loader + diagnostics printing)."""
    binary = build.build("bloch", "asan")
    r0 = ctx.rng("cli-sample")
    sample = r0.sample(rejected, min(len(rejected), ctx.n(250, 3000)))
    # loader-level shapes (the analyse harness bypasses ModuleLoader): no execution involved
    fd = build.build("frontdump", "asan")
    for k in ("shots-huge", "empty", "only-comment", "nul", "bom", "class-cycle", "self-extends",
              "dup-class", "int-huge", "array-huge", "derived-first", "generic-self", "unterminated-string",
              "missing-import", "bad-token-after-import", "deep-parens", "import-name-too-long", "import-path-too-long",
              "import-wild-too-long"):
        d = core.scratch_dir("ld")
        pth = os.path.join(d, "m.bloch")
        with open(pth, "wb") as f:
            f.write(shapes[k].encode("latin-1"))
        r = core.run([fd, "load", "-I", os.path.join(core.REPO, "library"), "--analyse", pth],
                     timeout=60)
        ctx.count("loader_shapes")
        ctx.note_case("load:" + k, sample=None)
        c = r.classify()
        import json as _json
        outs = []
        for l in r.stdout.splitlines():
            try:
                outs.append(_json.loads(l))
            except ValueError:
                pass
        raw = [o for o in outs if "raw_exception" in o]
        if c[0] == "sanitizer":
            ctx.violation(c[1], "module loader/analyser died on shape %s" % k,
                          dict(source=shapes[k], name=k), {"stderr.txt": r.stderr[-6000:]})
        elif raw:
            ctx.violation("raw:" + re.sub(r"[^A-Za-z_:]", "", raw[0]["raw_exception"])[:40],
                          "loader surfaced a raw C++ exception on shape %s: %s" %
                          (k, raw[0]["raw_exception"]), dict(source=shapes[k], name=k))
        elif c[0] not in ("ok",):
            ctx.violation("load-shape:%s" % (c[0],), "loader on shape %s: %r" % (k, c),
                          dict(source=shapes[k], name=k), {"stderr.txt": r.stderr[-6000:]})
        elif any(o.get("error") not in (None, "Lexical", "Parse", "Semantic") for o in outs):
            ctx.violation("diag:category", "shape %s: %r" % (k, outs), dict(source=shapes[k], name=k))
        else:
            # the harness repeats the request on the same ModuleLoader: it must stay usable and answer alike
            loads = [o for o in outs if "attempt" in o]
            errs = [o for o in outs if "error" in o]
            if loads and loads[0]["attempt"] == 0:
                same = len(loads) == 2 and (loads[0]["classes"], loads[0]["functions"]) == (loads[1]["classes"], loads[1]["functions"])
            else:
                same = not loads and len(errs) == 2 and errs[0].get("msg") == errs[1].get("msg")
            ctx.count("loader_reuse_compared")
            if not same:
                ctx.violation("front:loader-not-reusable", "shape %s: the same ModuleLoader answered the same "
                              "request differently the second time: %r" % (k, outs), dict(source=shapes[k], name=k))
        shutil.rmtree(d, ignore_errors=True)

    def one(item):
        name, src, cat = item
        r, _, _, _ = core.run_bloch(binary, src, timeout=60)
        return item, r

    for (name, src, cat), r in core.pmap(one, sample):
        cls = r.classify()
        ctx.note_case("cli:" + src, sample=None)
        ctx.count("cli_runs")
        files = {"input.bloch": src, "stderr.txt": r.stderr[-6000:]}
        if cls[0] == "diag" and cls[1] in ("Lexical", "Parse", "Semantic"):
            d = r.diag()
            if d[4] != 1:
                ctx.violation("diag:multiple", "CLI printed %d lines after the stop line for %s" %
                              (d[4], name), dict(source=src, name=name), files)
            continue
        if cls[0] == "sanitizer":
            key = cls[1]
        elif cls[0] == "raw":
            key = "raw:" + re.sub(r"[^A-Za-z_:]", "", cls[1])[:40]
        elif cls[0] == "signal":
            key = "signal:%d:%s" % (cls[1], "<-".join(core._bloch_frames(r.stderr)))
        elif cls[0] == "timeout":
            key = "hang:front:cli"
        else:
            key = "cli:%s" % (cls[0],)
        ctx.violation(key, "CLI on a rejected input (%s, frontdump said %s): %r" % (name, cat, cls),
                      dict(source=src, name=name), files)


def replay(ctx, data):
    case = data["case"]
    if "fuzz_input" in case:
        binary = build.build("fuzz_front", "fuzz")
        d = core.scratch_dir("fz")
        p = os.path.join(d, "input")
        with open(p, "wb") as f:
            f.write(case["fuzz_input"].encode("latin-1"))
        r = core.run([binary, p], timeout=120)
        print(r.stderr[-3000:])
        if r.rc != 0:
            k, w = fuzz_key(r.stderr)
            ctx.violation(k, w, case)
        return
    src = case["source"]
    res = front.run_batch("analyse", [src])
    print(res[0])
    binary = build.build("bloch", "asan")
    r, _, _, _ = core.run_bloch(binary, src)
    print(r.classify(), r.stderr[-2000:])
    c = r.classify()
    if c[0] in ("sanitizer", "raw", "signal", "timeout") or res[0]["crash"]:
        ctx.violation(data["key"], "replayed: %r" % (c,), case)
