"""C16: static rules are enforced in every syntactic position, and only there.

A matrix of rule x position templates, each a pair (violating, repaired twin).  The analyser
(lexer+parser+SemanticAnalyser, no execution; harness/frontdump analyse) must answer Semantic for
the violating member and accept the twin."""
import re

from .. import core, front

PROP = "C16"
RULE = ("matrix rule x position: (A) type compatibility of 18 (declared type, offending value, "
        "conforming value) triples in 17 value positions (initialiser, assignment statement/"
        "expression, member assignment, bare field write, this.field in constructor, array element, "
        "function/method/constructor/super argument, return, field initialiser, for-init, "
        "for-update, static field assignment); (B) 45 statement rules (final locals/fields incl. "
        "++, private/protected access by every route, use before declaration, redeclaration, void "
        "results, void variables/parameters, return arity, static/abstract instantiation, this/"
        "super in static context, @quantum return types, @shots placement, null) in 13 statement "
        "contexts (main, if/else, while, for, nested block, function, method, constructor, "
        "destructor, static method, generic method, ternary branch). Every pair is embedded in a "
        "surrounding program (thorough: several random surroundings). Distinct = distinct program "
        "texts; all cases are non-trivial (each carries a rule instance).")
ASSUMPTIONS = ["category only: the diagnostic's line/column are not checked here",
               "kept out (reach not fixed by the docs): element assignment into a final array, "
               "echo of a void call, shadowing between a method local and a field",
               "a twin that is rejected, or a violating program rejected with a non-Semantic category, "
               "is reported as a violation of the 'and only there' half"]

PRE = """\
class Foo {
    public int fi;
    public float ff;
    public long fl;
    public bit fb;
    public boolean fz;
    public string fs;
    public Foo fo;
    public int[] fa;
    public float[] ffa;
    public static int si = 0;
    public static Foo so;
    public constructor() -> Foo = default;
    public function mi(int p) -> int { return p; }
    public function mf(float p) -> int { return 1; }
    public function ml(long p) -> int { return 1; }
    public function mb(bit p) -> int { return 1; }
    public function mz(boolean p) -> int { return 1; }
    public function ms(string p) -> int { return 1; }
    public function mo(Foo p) -> int { return 1; }
    public function msub(Sub p) -> int { return 1; }
    public function ma(int[] p) -> int { return 1; }
    public function mfa(float[] p) -> int { return 1; }
}
class Sub extends Foo {
    public constructor() -> Sub { super(); return this; }
}
class Other {
    public constructor() -> Other = default;
}
class CI { public int v; public constructor(int p) -> CI { this.v = 1; return this; } }
class CF { public constructor(float p) -> CF { return this; } }
class CL { public constructor(long p) -> CL { return this; } }
class CB { public constructor(bit p) -> CB { return this; } }
class CZ { public constructor(boolean p) -> CZ { return this; } }
class CS { public constructor(string p) -> CS { return this; } }
class CO { public constructor(Foo p) -> CO { return this; } }
class CSub { public constructor(Sub p) -> CSub { return this; } }
class CA { public constructor(int[] p) -> CA { return this; } }
class CFA { public constructor(float[] p) -> CFA { return this; } }
function gi(int p) -> int { return p; }
function gf(float p) -> int { return 1; }
function gl(long p) -> int { return 1; }
function gb(bit p) -> int { return 1; }
function gz(boolean p) -> int { return 1; }
function gs(string p) -> int { return 1; }
function go(Foo p) -> int { return 1; }
function gsub(Sub p) -> int { return 1; }
function ga(int[] p) -> int { return 1; }
function gfa(float[] p) -> int { return 1; }
function vf() -> void { }
function go2(Foo p, int k) -> int { return k; }
function go3(int a, Foo p, int k) -> int { return k; }
"""

# key -> (type source, suffix used in helper names, array element type or None)
TYPES = {
    "int": ("int", "i"), "float": ("float", "f"), "long": ("long", "l"), "bit": ("bit", "b"),
    "boolean": ("boolean", "z"), "string": ("string", "s"), "Foo": ("Foo", "o"), "Sub": ("Sub", "sub"),
    "int[]": ("int[]", "a"), "float[]": ("float[]", "fa"),
}
FIELD = {"int": "fi", "float": "ff", "long": "fl", "bit": "fb", "boolean": "fz", "string": "fs",
         "Foo": "fo", "int[]": "fa", "float[]": "ffa"}
CTOR = {"int": "CI", "float": "CF", "long": "CL", "bit": "CB", "boolean": "CZ", "string": "CS",
        "Foo": "CO", "Sub": "CSub", "int[]": "CA", "float[]": "CFA"}

# locals available to every expression: declared in the wrapper's prologue
LOCALS = """\
    int li = 1;
    float lf = 1.5f;
    long ll = 2L;
    bit lb = 1b;
    boolean lz = true;
    string ls = "s";
    Foo lo = new Foo();
    Sub lsub = new Sub();
    Other lother = new Other();
    int[] la = {1, 2};
    float[] lfa = {1.5f};
    Foo lbase = new Sub();
"""

# (declared type, offending value, conforming value, rule id)
TYPE_RULES = [
    ("int", "1.5f", "1", "int<-float"), ("int", "ll", "li", "int<-long"), ("float", "li", "lf", "float<-int"),
    ("bit", "li", "lb", "bit<-int"), ("boolean", "lb", "lz", "boolean<-bit"), ("string", "li", "ls", "string<-int"),
    ("long", "lf", "li", "long<-float|int-widens"), ("int", "new Foo()", "gi(1)", "int<-object"),
    ("int", "la", "la[0]", "int<-array"), ("Foo", "li", "new Foo()", "class<-int"),
    ("Sub", "lbase", "lsub", "sub<-base"), ("Foo", "lother", "lsub", "class<-unrelated|subclass-ok"),
    ("Foo", "ls", "null", "class<-string|null-ok"), ("int", "null", "0", "int<-null"),
    ("int[]", "null", "la", "array<-null"), ("float[]", "la", "lfa", "float[]<-int[]"),
    ("int[]", "li", "la", "array<-int"), ("string", "lo", "\"t\"", "string<-object"),
    ("float", "lz", "2.5f", "float<-boolean"), ("long", "ls", "3L", "long<-string"),
    # the type of an arithmetic expression follows the documented promotion (int < long < float)
    ("int", "li + ll", "li + li", "int<-int+long"), ("int", "ll * li", "li * li", "int<-long*int"),
    ("int", "li - ll", "li - li", "int<-int-long"), ("int", "li % ll", "li % li", "int<-int%long"),
    ("int", "li + lf", "li + li", "int<-int+float"), ("long", "ll * lf", "ll * li", "long<-long*float|long*int-ok"),
    ("int", "-ll", "-li", "int<-neg-long"), ("int", "(li + (ll))", "(li + (li))", "int<-paren-int+long"),
    ("boolean", "li + li", "li < li", "boolean<-sum|comparison-ok"), ("int", "li < ll", "li + li", "int<-comparison"),
    # the value of an assignment expression has the type of its target
    ("int", "(lf = 2.5f)", "(li = 3)", "int<-assign-expr:float"),
    ("float", "(li = 3)", "(lf = 2.5f)", "float<-assign-expr:int"),
    ("int", "(lo.ff = 2.5f)", "(lo.fi = 3)", "int<-member-assign-expr:float"),
    ("string", "(la[0] = 1)", "(ls = \"u\")", "string<-array-assign-expr:int"),
    ("Sub", "(lbase = lsub)", "(lsub = lsub)", "sub<-assign-expr:base"),
]


def value_positions(T, E):
    """Yield (position id, [statements for the body], extra class/function text) placing a value
    E where a T is expected.  Body statements run with LOCALS in scope."""
    tsrc, suf = TYPES[T]
    out = []
    out.append(("init", ["%s t0 = %s;" % (tsrc, E)], ""))
    dv = {"int": "0", "float": "0.0f", "long": "0L", "bit": "0b", "boolean": "false", "string": "\"\"",
          "Foo": "new Foo()", "Sub": "new Sub()", "int[]": "{0}", "float[]": "{0.0f}"}[T]
    out.append(("assign-stmt", ["%s t0 = %s;" % (tsrc, dv), "t0 = %s;" % E], ""))
    out.append(("assign-expr", ["%s t0 = %s;" % (tsrc, dv), "%s t1 = %s;" % (tsrc, dv), "t1 = t0 = %s;" % E], ""))
    out.append(("for-update", ["%s t0 = %s;" % (tsrc, dv), "for (int k0 = 0; k0 < 1; t0 = %s) { k0 = k0 + 1; }" % E], ""))
    if T in FIELD:
        out.append(("member-assign", ["lo.%s = %s;" % (FIELD[T], E)], ""))
        out.append(("member-assign-chain", ["lo.fo = new Foo();", "lo.fo.%s = %s;" % (FIELD[T], E)], ""))
    out.append(("fn-arg", ["int r0 = g%s(%s);" % (suf, E)], ""))
    out.append(("fn-arg-nested", ["int r0 = gi(g%s(%s));" % (suf, E)], ""))
    out.append(("method-arg", ["int r0 = lo.m%s(%s);" % (suf, E)], ""))
    out.append(("ctor-arg", ["%s c0 = new %s(%s);" % (CTOR[T], CTOR[T], E)], ""))
    if T in ("int", "float", "long", "bit", "boolean", "string", "Foo"):
        arr = {"int": "la", "float": "lfa"}.get(T)
        if arr:
            out.append(("array-elem", ["%s[0] = %s;" % (arr, E)], ""))
    return out


def value_positions_decl(T, E):
    """Positions that need their own declarations (the value cannot see LOCALS): E restricted to
    literal-like values; returns (position id, top-level text, main body)."""
    tsrc, suf = TYPES[T]
    out = []
    lit = not re.search(r"\bl[a-z]+\b", E)
    if lit:
        out.append(("field-init", "class FI { public %s x = %s; public constructor() -> FI = default; }\n" % (tsrc, E), []))
        out.append(("static-field-init", "class FS { public static %s x = %s; public constructor() -> FS = default; }\n" % (tsrc, E), []))
    ret_env = LOCALS
    out.append(("return", "function rr() -> %s {\n%s    return %s;\n}\n" % (tsrc, ret_env, E), []))
    out.append(("method-return", "class MR { public constructor() -> MR = default; public function m() -> %s {\n%s        return %s;\n    } }\n"
                % (tsrc, ret_env, E), []))
    if T in FIELD:
        f = FIELD[T]
        out.append(("bare-field-write", "class BF extends Foo { public constructor() -> BF { super(); return this; } public function w() -> void {\n%s        %s = %s;\n    } }\n"
                    % (ret_env, f, E), []))
        out.append(("this-field-ctor", "class TF extends Foo { public constructor() -> TF {\n        super();\n%s        this.%s = %s;\n        return this;\n    } }\n"
                    % (ret_env, f, E), []))
    if T in ("int", "float", "long", "bit", "boolean", "string", "Foo", "int[]", "float[]"):
        out.append(("super-arg", "class SA extends %s { public constructor() -> SA {\n        super(%s);\n        return this;\n    } }\n"
                    % (CTOR[T], E if lit else "%s"), [] if lit else None))
    if T in ("int", "float", "long", "bit", "boolean", "string"):
        if lit:
            out.append(("for-init", "", ["for (%s k1 = %s; lz; lz = false) { }" % (tsrc, E)]))
    return out


STMT_WRAPPERS = [
    ("main", lambda s: ("", s)),
    ("if", lambda s: ("", ["if (lz) {"] + s + ["}"])),
    ("else", lambda s: ("", ["if (lz) { } else {"] + s + ["}"])),
    ("while", lambda s: ("", ["int wk = 0;", "while (wk < 1) {"] + s + ["wk = wk + 1;", "}"])),
    ("for", lambda s: ("", ["for (int fk = 0; fk < 1; fk = fk + 1) {"] + s + ["}"])),
    ("nested-block", lambda s: ("", ["{", "{"] + s + ["}", "}"])),
]


def in_function(kind, prologue, stmts):
    body = prologue + "".join("        " + x + "\n" for x in stmts)
    if kind == "function":
        return "function wrapf() -> void {\n%s}\n" % body
    if kind == "method":
        return "class WM { public int own; public constructor() -> WM = default; public function w() -> void {\n%s    } }\n" % body
    if kind == "constructor":
        return "class WC { public int own; public constructor() -> WC {\n%s        return this;\n    } }\n" % body
    if kind == "destructor":
        return "class WD { public int own; public constructor() -> WD = default; public destructor() -> void {\n%s    } }\n" % body
    if kind == "static-method":
        return "class WS { public static int sown; public constructor() -> WS = default; public static function w() -> void {\n%s    } }\n" % body
    if kind == "generic-method":
        return "class WG<T> { public T gv; public constructor() -> WG<T> = default; public function w() -> void {\n%s    } }\n" % body
    raise ValueError(kind)


FUNCTION_KINDS = ["function", "method", "constructor", "destructor", "static-method", "generic-method"]

# statement rules: id -> (top-level text, violating statements, twin statements, contexts allowed)
ACCESS = """\
class Acc {
    private int priv;
    protected int prot;
    public int pub;
    private static int spriv = 0;
    public final int fin = 1;
    public final int finc;
    public static final int sfin = 2;
    public constructor() -> Acc { this.finc = 3; return this; }
    private function pm() -> int { return 1; }
    protected function qm() -> int { return 1; }
    public function um() -> int { return this.priv + this.pm(); }
    private constructor(int hidden) -> Acc { this.finc = 4; return this; }
}
class AccSub extends Acc {
    public constructor() -> AccSub { super(); return this; }
}
static class St { public static int v = 0; public static function f() -> int { return 1; } }
abstract class Ab { public constructor() -> Ab = default; public virtual function am() -> int; }
class Conc extends Ab { public constructor() -> Conc { super(); return this; } public override function am() -> int { return 1; } }
"""

STMT_RULES = [
    # final locals
    ("final-local:assign", "", ["final int c0 = 1;", "c0 = 2;"], ["int c0 = 1;", "c0 = 2;"], "all"),
    ("final-local:assign-expr", "", ["final int c0 = 1;", "int d0 = 0;", "d0 = c0 = 2;"], ["int c0 = 1;", "int d0 = 0;", "d0 = c0 = 2;"], "all"),
    ("final-local:postfix", "", ["final int c0 = 1;", "c0++;"], ["int c0 = 1;", "c0++;"], "all"),
    ("final-local:postfix-dec", "", ["final long c0 = 1L;", "c0--;"], ["long c0 = 1L;", "c0--;"], "all"),
    ("final-local:for-update", "", ["final int c0 = 1;", "for (int q0 = 0; q0 < 1; c0 = 5) { q0 = q0 + 1; }"],
     ["int c0 = 1;", "for (int q0 = 0; q0 < 1; c0 = 5) { q0 = q0 + 1; }"], "all"),
    ("final-local:uninit", "", ["final int c0;"], ["final int c0 = 1;"], "all"),
    # every argument is checked, also those that follow a null
    ("type:arg-after-null", "", ["int r0 = go2(null, \"seven\");"], ["int r0 = go2(null, 7);"], "all"),
    ("type:arg-after-null-3", "", ["int r0 = go3(1, null, 2.5f);"], ["int r0 = go3(1, null, 2);"], "all"),
    ("type:arg-before-null", "", ["int r0 = go3(\"x\", null, 2);"], ["int r0 = go3(1, null, 2);"], "all"),
    # ... declared in a for header
    ("final-local:for-init-update", "", ["for (final int c0 = 0; c0 < 1; c0 = c0 + 1) { }"],
     ["for (int c0 = 0; c0 < 1; c0 = c0 + 1) { }"], "all"),
    ("final-local:for-init-postfix", "", ["for (final int c0 = 0; c0 < 1; c0++) { }"], ["for (int c0 = 0; c0 < 1; c0++) { }"], "all"),
    ("final-local:for-init-body", "", ["int g0 = 0;", "for (final int c0 = 0; g0 < 1; g0 = g0 + 1) { c0 = 2; }"],
     ["int g0 = 0;", "for (int c0 = 0; g0 < 1; g0 = g0 + 1) { c0 = 2; }"], "all"),
    ("final-local:for-init-long-body-postfix", "", ["int g0 = 0;", "for (final int c0 = 5; g0 < 1; g0 = g0 + 1) { c0--; }"],
     ["int g0 = 0;", "for (int c0 = 5; g0 < 1; g0 = g0 + 1) { c0--; }"], "all"),
    ("final-local:inner-assign", "", ["final int c0 = 1;", "{", "c0 = 3;", "}"], ["int c0 = 1;", "{", "c0 = 3;", "}"], "all"),
    # final fields
    ("final-field:member-assign", ACCESS, ["Acc a0 = new Acc();", "a0.fin = 5;"], ["Acc a0 = new Acc();", "a0.pub = 5;"], "all"),
    ("final-field:ctor-assigned-outside", ACCESS, ["Acc a0 = new Acc();", "a0.finc = 5;"], ["Acc a0 = new Acc();", "a0.pub = 5;"], "all"),
    ("final-field:static", ACCESS, ["Acc.sfin = 5;"], ["int r0 = Acc.sfin;"], "all"),
    # access control
    ("private:read", ACCESS, ["Acc a0 = new Acc();", "int r0 = a0.priv;"], ["Acc a0 = new Acc();", "int r0 = a0.pub;"], "all"),
    ("private:write", ACCESS, ["Acc a0 = new Acc();", "a0.priv = 1;"], ["Acc a0 = new Acc();", "a0.pub = 1;"], "all"),
    ("private:call", ACCESS, ["Acc a0 = new Acc();", "int r0 = a0.pm();"], ["Acc a0 = new Acc();", "int r0 = a0.um();"], "all"),
    ("private:via-subclass-ref", ACCESS, ["AccSub a0 = new AccSub();", "int r0 = a0.priv;"], ["AccSub a0 = new AccSub();", "int r0 = a0.pub;"], "all"),
    ("private:as-argument", ACCESS, ["Acc a0 = new Acc();", "int r0 = gi(a0.priv);"], ["Acc a0 = new Acc();", "int r0 = gi(a0.pub);"], "all"),
    ("private:in-condition", ACCESS, ["Acc a0 = new Acc();", "if (a0.priv > 0) { }"], ["Acc a0 = new Acc();", "if (a0.pub > 0) { }"], "all"),
    ("private:static", ACCESS, ["int r0 = Acc.spriv;"], ["int r0 = Acc.sfin;"], "all"),
    ("private:constructor", ACCESS, ["Acc a0 = new Acc(1);"], ["Acc a0 = new Acc();"], "all"),
    ("protected:read", ACCESS, ["Acc a0 = new Acc();", "int r0 = a0.prot;"], ["Acc a0 = new Acc();", "int r0 = a0.pub;"], "all"),
    ("protected:call", ACCESS, ["Acc a0 = new Acc();", "int r0 = a0.qm();"], ["Acc a0 = new Acc();", "int r0 = a0.um();"], "all"),
    ("protected:write", ACCESS, ["Acc a0 = new Acc();", "a0.prot = 2;"], ["Acc a0 = new Acc();", "a0.pub = 2;"], "all"),
    # declarations
    ("use-before-decl", "", ["int r0 = z0 + 1;", "int z0 = 1;"], ["int z0 = 1;", "int r0 = z0 + 1;"], "all"),
    ("use-before-decl:assign", "", ["z0 = 1;", "int z0 = 0;"], ["int z0 = 0;", "z0 = 1;"], "all"),
    ("undeclared", "", ["int r0 = nosuch + 1;"], ["int r0 = li + 1;"], "all"),
    ("redeclare:same-scope", "", ["int z0 = 1;", "int z0 = 2;"], ["int z0 = 1;", "int z1 = 2;"], "all"),
    ("redeclare:inner-block", "", ["int z0 = 1;", "{", "int z0 = 2;", "}"], ["int z0 = 1;", "{", "int z1 = 2;", "}"], "all"),
    ("redeclare:loop-var", "", ["int z0 = 1;", "for (int z0 = 0; z0 < 1; z0 = z0 + 1) { }"], ["int z0 = 1;", "for (int z1 = 0; z1 < 1; z1 = z1 + 1) { }"], "all"),
    ("redeclare:different-type", "", ["int z0 = 1;", "string z0 = \"s\";"], ["int z0 = 1;", "string z1 = \"s\";"], "all"),
    # void
    ("void-result:init", "", ["int r0 = vf();"], ["int r0 = gi(1);"], "all"),
    ("void-result:assign", "", ["int r0 = 0;", "r0 = vf();"], ["int r0 = 0;", "r0 = gi(1);"], "all"),
    ("void-result:argument", "", ["int r0 = gi(vf());"], ["int r0 = gi(gi(1));"], "all"),
    ("void-result:operand", "", ["int r0 = vf() + 1;"], ["int r0 = gi(1) + 1;"], "all"),
    ("void-result:builtin", "", ["qubit vq;", "int r0 = h(vq);"], ["qubit vq;", "h(vq);"], "all"),
    ("void-variable", "", ["void v0;"], ["int v0;"], "all"),
    # instantiation
    ("instantiate:static", ACCESS, ["St s0 = new St();"], ["int r0 = St.f();"], "all"),
    ("instantiate:abstract", ACCESS, ["Ab b0 = new Ab();"], ["Ab b0 = new Conc();"], "all"),
    # null
    ("null:primitive-init", "", ["int r0 = null;"], ["Foo r0 = null;"], "all"),
    ("null:primitive-assign", "", ["string r0 = \"a\";", "r0 = null;"], ["Foo r0 = new Foo();", "r0 = null;"], "all"),
    ("null:array", "", ["int[] r0 = null;"], ["int[] r0 = {1};"], "all"),
    ("null:operator", "", ["Foo r0 = null;", "boolean b0 = r0 < null;"], ["Foo r0 = null;", "boolean b0 = r0 == null;"], "all"),
    ("null:argument", "", ["int r0 = gi(null);"], ["int r0 = go(null);"], "all"),
    ("null:compare-primitive", "", ["boolean b0 = li == null;"], ["boolean b0 = lo == null;"], "all"),
]

# whole-program rules (position is part of the rule)
PROGRAM_RULES = [
    # generic instantiations with different arguments are different types, also as array elements
    ('generic-array:init', 'class GA0 { public constructor() -> GA0 = default; } class GB0 { public constructor() -> GB0 = default; } class GBox<T> { public T v; public constructor(T x) -> GBox<T> { this.v = x; return this; } } function f0() -> void { GBox<GA0>[] xs = {new GBox<GA0>(new GA0())}; GBox<GB0>[] ys = xs; }', 'class GA0 { public constructor() -> GA0 = default; } class GB0 { public constructor() -> GB0 = default; } class GBox<T> { public T v; public constructor(T x) -> GBox<T> { this.v = x; return this; } } function f0() -> void { GBox<GA0>[] xs = {new GBox<GA0>(new GA0())}; GBox<GA0>[] ys = xs; }'),
    ('generic-array:assign', 'class GA0 { public constructor() -> GA0 = default; } class GB0 { public constructor() -> GB0 = default; } class GBox<T> { public T v; public constructor(T x) -> GBox<T> { this.v = x; return this; } } function f0() -> void { GBox<GA0>[] xs = {new GBox<GA0>(new GA0())}; GBox<GB0>[] ys = {new GBox<GB0>(new GB0())}; ys = xs; }', 'class GA0 { public constructor() -> GA0 = default; } class GB0 { public constructor() -> GB0 = default; } class GBox<T> { public T v; public constructor(T x) -> GBox<T> { this.v = x; return this; } } function f0() -> void { GBox<GA0>[] xs = {new GBox<GA0>(new GA0())}; GBox<GA0>[] ys = {new GBox<GA0>(new GA0())}; ys = xs; }'),
    ('generic-array:argument', 'class GA0 { public constructor() -> GA0 = default; } class GB0 { public constructor() -> GB0 = default; } class GBox<T> { public T v; public constructor(T x) -> GBox<T> { this.v = x; return this; } } function g0(GBox<GB0>[] p) -> int { return 1; } function f0() -> void { GBox<GA0>[] xs = {new GBox<GA0>(new GA0())}; int r = g0(xs); }', 'class GA0 { public constructor() -> GA0 = default; } class GB0 { public constructor() -> GB0 = default; } class GBox<T> { public T v; public constructor(T x) -> GBox<T> { this.v = x; return this; } } function g0(GBox<GA0>[] p) -> int { return 1; } function f0() -> void { GBox<GA0>[] xs = {new GBox<GA0>(new GA0())}; int r = g0(xs); }'),
    ('generic-array:return', 'class GA0 { public constructor() -> GA0 = default; } class GB0 { public constructor() -> GB0 = default; } class GBox<T> { public T v; public constructor(T x) -> GBox<T> { this.v = x; return this; } } function f0() -> GBox<GB0>[] { GBox<GA0>[] xs = {new GBox<GA0>(new GA0())}; return xs; }', 'class GA0 { public constructor() -> GA0 = default; } class GB0 { public constructor() -> GB0 = default; } class GBox<T> { public T v; public constructor(T x) -> GBox<T> { this.v = x; return this; } } function f0() -> GBox<GA0>[] { GBox<GA0>[] xs = {new GBox<GA0>(new GA0())}; return xs; }'),
    ('generic-array:prim-args', 'class GA0 { public constructor() -> GA0 = default; } class GB0 { public constructor() -> GB0 = default; } class GBox<T> { public T v; public constructor(T x) -> GBox<T> { this.v = x; return this; } } function f0() -> void { GBox<int>[] xs = {new GBox<int>(1)}; GBox<string>[] ys = xs; }', 'class GA0 { public constructor() -> GA0 = default; } class GB0 { public constructor() -> GB0 = default; } class GBox<T> { public T v; public constructor(T x) -> GBox<T> { this.v = x; return this; } } function f0() -> void { GBox<int>[] xs = {new GBox<int>(1)}; GBox<int>[] ys = xs; }'),
    ('generic-value:other-arg', 'class GA0 { public constructor() -> GA0 = default; } class GB0 { public constructor() -> GB0 = default; } class GBox<T> { public T v; public constructor(T x) -> GBox<T> { this.v = x; return this; } } function f0() -> void { GBox<GA0> x = new GBox<GA0>(new GA0()); GBox<GB0> y = x; }', 'class GA0 { public constructor() -> GA0 = default; } class GB0 { public constructor() -> GB0 = default; } class GBox<T> { public T v; public constructor(T x) -> GBox<T> { this.v = x; return this; } } function f0() -> void { GBox<GA0> x = new GBox<GA0>(new GA0()); GBox<GA0> y = x; }'),
    ("return:value-in-void", "function f0() -> void { return 1; }", "function f0() -> void { return; }"),
    ("return:bare-in-int", "function f0() -> int { return; }", "function f0() -> int { return 1; }"),
    ("return:missing", "function f0() -> int { int a = 1; }", "function f0() -> int { int a = 1; return a; }"),
    ("return:value-in-void-method", "class R0 { public constructor() -> R0 = default; public function m() -> void { return 1; } }",
     "class R0 { public constructor() -> R0 = default; public function m() -> void { return; } }"),
    ("return:bare-in-int-method", "class R0 { public constructor() -> R0 = default; public function m() -> int { return; } }",
     "class R0 { public constructor() -> R0 = default; public function m() -> int { return 2; } }"),
    ("return:value-in-void-nested", "function f0() -> void { if (true) { while (false) { return 1; } } }",
     "function f0() -> void { if (true) { while (false) { return; } } }"),
    ("void-param", "function f0(void p) -> int { return 1; }", "function f0(int p) -> int { return 1; }"),
    ("void-param:method", "class R0 { public constructor() -> R0 = default; public function m(void p) -> int { return 1; } }",
     "class R0 { public constructor() -> R0 = default; public function m(int p) -> int { return 1; } }"),
    ("void-param:ctor", "class R0 { public constructor(void p) -> R0 { return this; } }",
     "class R0 { public constructor(int p) -> R0 { return this; } }"),
    ("void-field", "class R0 { public void x; public constructor() -> R0 = default; }", "class R0 { public int x; public constructor() -> R0 = default; }"),
    ("quantum-return:int", "@quantum function q0() -> int { return 1; }", "@quantum function q0() -> bit { return 1b; }"),
    ("quantum-return:string", "@quantum function q0() -> string { return \"s\"; }", "@quantum function q0() -> void { }"),
    ("quantum-return:float-method", "class R0 { public constructor() -> R0 = default; @quantum public function m() -> float { return 1.0f; } }",
     "class R0 { public constructor() -> R0 = default; @quantum public function m() -> bit { return 1b; } }"),
    ("quantum-on-main", None, None),
    ("shots:non-main", "@shots(5) function other() -> void { }", "function other() -> void { }"),
    ("this-in-static", "class R0 { public int x; public constructor() -> R0 = default; public static function s() -> int { return this.x; } }",
     "class R0 { public int x; public constructor() -> R0 = default; public function s() -> int { return this.x; } }"),
    ("this-in-static:call", "class R0 { public constructor() -> R0 = default; public function i() -> int { return 1; } public static function s() -> int { return this.i(); } }",
     "class R0 { public constructor() -> R0 = default; public function i() -> int { return 1; } public function s() -> int { return this.i(); } }"),
    ("bare-instance-in-static", "class R0 { public int x; public constructor() -> R0 = default; public static function s() -> int { return x; } }",
     "class R0 { public static int x = 0; public constructor() -> R0 = default; public static function s() -> int { return x; } }"),
    ("super-in-static", "class B0 { public constructor() -> B0 = default; public function m() -> int { return 1; } } class R0 extends B0 { public constructor() -> R0 { super(); return this; } public static function s() -> int { return super.m(); } }",
     "class B0 { public constructor() -> B0 = default; public function m() -> int { return 1; } } class R0 extends B0 { public constructor() -> R0 { super(); return this; } public function s() -> int { return super.m(); } }"),
    ("this-in-static-field-init", "class R0 { public int x; public static int y = this.x; public constructor() -> R0 = default; }",
     "class R0 { public int x; public static int y = 3; public constructor() -> R0 = default; }"),
    ("this-in-function", "function f0() -> int { return this.x; }", "function f0() -> int { return 1; }"),
    ("final-field:twice-in-ctor", "class R0 { public final int x; public constructor() -> R0 { this.x = 1; this.x = 2; return this; } }",
     "class R0 { public final int x; public constructor() -> R0 { this.x = 1; return this; } }"),
    ("final-field:never-in-ctor", "class R0 { public final int x; public constructor() -> R0 { return this; } }",
     "class R0 { public final int x; public constructor() -> R0 { this.x = 1; return this; } }"),
    ("final-field:one-ctor-misses", "class R0 { public final int x; public constructor() -> R0 { this.x = 1; return this; } public constructor(int a) -> R0 { return this; } }",
     "class R0 { public final int x; public constructor() -> R0 { this.x = 1; return this; } public constructor(int a) -> R0 { this.x = a; return this; } }"),
    ("final-field:conditional-in-ctor", "class R0 { public final int x; public constructor(boolean c) -> R0 { if (c) { this.x = 1; } return this; } }",
     "class R0 { public final int x; public constructor(boolean c) -> R0 { this.x = 1; return this; } }"),
    ("final-field:initialised-and-ctor", "class R0 { public final int x = 1; public constructor() -> R0 { this.x = 2; return this; } }",
     "class R0 { public final int x = 1; public constructor() -> R0 { return this; } }"),
    ("final-field:in-method", "class R0 { public final int x = 1; public constructor() -> R0 = default; public function m() -> void { this.x = 2; } }",
     "class R0 { public int x = 1; public constructor() -> R0 = default; public function m() -> void { this.x = 2; } }"),
    ("final-field:bare-in-method", "class R0 { public final int x = 1; public constructor() -> R0 = default; public function m() -> void { x = 2; } }",
     "class R0 { public int x = 1; public constructor() -> R0 = default; public function m() -> void { x = 2; } }"),
    ("final-field:postfix-in-method", "class R0 { public final int x = 1; public constructor() -> R0 = default; public function m() -> void { x++; } }",
     "class R0 { public int x = 1; public constructor() -> R0 = default; public function m() -> void { x++; } }"),
    ("final-field:inherited-in-derived-ctor", "class B0 { public final int x; public constructor() -> B0 { this.x = 1; return this; } } class R0 extends B0 { public constructor() -> R0 { super(); this.x = 2; return this; } }",
     "class B0 { public int x; public constructor() -> B0 { this.x = 1; return this; } } class R0 extends B0 { public constructor() -> R0 { super(); this.x = 2; return this; } }"),
    ("final-field:for-update-in-ctor", "class R0 { public final int x; public constructor() -> R0 { for (int i = 0; i < 3; this.x = i) { i = i + 1; } return this; } }",
     "class R0 { public final int x; public constructor() -> R0 { this.x = 0; for (int i = 0; i < 3; i = i + 1) { } return this; } }"),
    ("final-field:for-init-in-ctor", "class R0 { public final int x; public constructor() -> R0 { for (this.x = 0; false; this.x = 1) { } return this; } }",
     "class R0 { public final int x; public constructor() -> R0 { this.x = 0; return this; } }"),
    ("final-field:while-body-in-ctor", "class R0 { public final int x; public constructor() -> R0 { int k = 0; while (k < 2) { this.x = k; k = k + 1; } return this; } }",
     "class R0 { public final int x; public constructor() -> R0 { int k = 0; while (k < 2) { k = k + 1; } this.x = k; return this; } }"),
    ("final-field:for-body-in-ctor", "class R0 { public final int x; public constructor() -> R0 { for (int i = 0; i < 2; i = i + 1) { this.x = i; } return this; } }",
     "class R0 { public final int x; public constructor() -> R0 { for (int i = 0; i < 2; i = i + 1) { } this.x = 2; return this; } }"),
    ("final-field:nested-block-in-ctor", "class R0 { public final int x; public constructor() -> R0 { { this.x = 1; } return this; } }",
     "class R0 { public final int x; public constructor() -> R0 { this.x = 1; return this; } }"),
    ("final-field:ternary-then-in-ctor", "class R0 { public final int x; public constructor(boolean c) -> R0 { c ? this.x = 1; : echo(0); return this; } }",
     "class R0 { public final int x; public constructor(boolean c) -> R0 { this.x = 1; c ? echo(1); : echo(0); return this; } }"),
    ("final-field:ternary-else-in-ctor", "class R0 { public final int x; public constructor(boolean c) -> R0 { c ? echo(1); : this.x = 1; return this; } }",
     "class R0 { public final int x; public constructor(boolean c) -> R0 { c ? echo(1); : echo(0); this.x = 1; return this; } }"),
    ("final-field:bare-ternary-then-in-ctor", "class R0 { public final int x; public constructor(boolean c) -> R0 { c ? x = 1; : echo(0); return this; } }",
     "class R0 { public final int x; public constructor(boolean c) -> R0 { x = 1; c ? echo(1); : echo(0); return this; } }"),
    ("final-field:ternary-both-in-ctor", "class R0 { public final int x; public constructor(boolean c) -> R0 { c ? this.x = 1; : this.x = 2; return this; } }",
     "class R0 { public final int x; public constructor(boolean c) -> R0 { this.x = 2; c ? echo(1); : echo(0); return this; } }"),
    ("final-field:else-branch-in-ctor", "class R0 { public final int x; public constructor(boolean c) -> R0 { if (c) { echo(1); } else { this.x = 1; } return this; } }",
     "class R0 { public final int x; public constructor(boolean c) -> R0 { if (c) { echo(1); } else { echo(0); } this.x = 1; return this; } }"),
    ("final-field:ternary-in-nested-ternary-in-ctor", "class R0 { public final int x; public constructor(boolean c) -> R0 { if (c) { c ? this.x = 1; : echo(0); } return this; } }",
     "class R0 { public final int x; public constructor(boolean c) -> R0 { this.x = 1; if (c) { c ? echo(1); : echo(0); } return this; } }"),
    ("final-field:bare-for-update-in-ctor", "class R0 { public final int x; public constructor() -> R0 { for (int i = 0; i < 3; x = i) { i = i + 1; } return this; } }",
     "class R0 { public final int x; public constructor() -> R0 { x = 0; return this; } }"),
    ("private:field-write-in-subclass", "class B0 { private int p; public constructor() -> B0 = default; } class R0 extends B0 { public constructor() -> R0 { super(); return this; } public function m() -> void { this.p = 1; } }",
     "class B0 { protected int p; public constructor() -> B0 = default; } class R0 extends B0 { public constructor() -> R0 { super(); return this; } public function m() -> void { this.p = 1; } }"),
    ("private:bare-field-write-in-subclass", "class B0 { private int p; public constructor() -> B0 = default; } class R0 extends B0 { public constructor() -> R0 { super(); return this; } public function m() -> void { p = 1; } }",
     "class B0 { protected int p; public constructor() -> B0 = default; } class R0 extends B0 { public constructor() -> R0 { super(); return this; } public function m() -> void { p = 1; } }"),
    ("private:field-write-via-subclass-instance", "class B0 { private int p; public constructor() -> B0 = default; } class R0 extends B0 { public constructor() -> R0 { super(); return this; } public function m(R0 o) -> void { o.p = 1; } }",
     "class B0 { protected int p; public constructor() -> B0 = default; } class R0 extends B0 { public constructor() -> R0 { super(); return this; } public function m(R0 o) -> void { o.p = 1; } }"),
    ("private:field-write-in-subclass-ctor", "class B0 { private int p; public constructor() -> B0 = default; } class R0 extends B0 { public constructor() -> R0 { super(); this.p = 2; return this; } }",
     "class B0 { protected int p; public constructor() -> B0 = default; } class R0 extends B0 { public constructor() -> R0 { super(); this.p = 2; return this; } }"),
    ("private:field-postfix-in-subclass", "class B0 { private int p; public constructor() -> B0 = default; } class R0 extends B0 { public constructor() -> R0 { super(); return this; } public function m() -> void { p++; } }",
     "class B0 { protected int p; public constructor() -> B0 = default; } class R0 extends B0 { public constructor() -> R0 { super(); return this; } public function m() -> void { p++; } }"),
    ("private:static-write-in-subclass", "class B0 { private static int sp = 0; public constructor() -> B0 = default; } class R0 extends B0 { public constructor() -> R0 { super(); return this; } public function m() -> void { R0.sp = 1; } }",
     "class B0 { protected static int sp = 0; public constructor() -> B0 = default; } class R0 extends B0 { public constructor() -> R0 { super(); return this; } public function m() -> void { R0.sp = 1; } }"),
    ("protected:field-write-from-unrelated", "class B0 { protected int p; public constructor() -> B0 = default; } class R0 { public constructor() -> R0 = default; public function m(B0 b) -> void { b.p = 3; } }",
     "class B0 { public int p; public constructor() -> B0 = default; } class R0 { public constructor() -> R0 = default; public function m(B0 b) -> void { b.p = 3; } }"),
    ("final-static:uninit", "class R0 { public static final int x; public constructor() -> R0 = default; }", "class R0 { public static final int x = 1; public constructor() -> R0 = default; }"),
    ("private:field-in-subclass", "class B0 { private int p; public constructor() -> B0 = default; } class R0 extends B0 { public constructor() -> R0 { super(); return this; } public function m() -> int { return this.p; } }",
     "class B0 { protected int p; public constructor() -> B0 = default; } class R0 extends B0 { public constructor() -> R0 { super(); return this; } public function m() -> int { return this.p; } }"),
    ("private:bare-field-in-subclass", "class B0 { private int p; public constructor() -> B0 = default; } class R0 extends B0 { public constructor() -> R0 { super(); return this; } public function m() -> int { return p; } }",
     "class B0 { protected int p; public constructor() -> B0 = default; } class R0 extends B0 { public constructor() -> R0 { super(); return this; } public function m() -> int { return p; } }"),
    ("private:method-in-subclass", "class B0 { public constructor() -> B0 = default; private function pm() -> int { return 1; } } class R0 extends B0 { public constructor() -> R0 { super(); return this; } public function m() -> int { return this.pm(); } }",
     "class B0 { public constructor() -> B0 = default; protected function pm() -> int { return 1; } } class R0 extends B0 { public constructor() -> R0 { super(); return this; } public function m() -> int { return this.pm(); } }"),
    ("private:bare-method-in-subclass", "class B0 { public constructor() -> B0 = default; private function pm() -> int { return 1; } } class R0 extends B0 { public constructor() -> R0 { super(); return this; } public function m() -> int { return pm(); } }",
     "class B0 { public constructor() -> B0 = default; protected function pm() -> int { return 1; } } class R0 extends B0 { public constructor() -> R0 { super(); return this; } public function m() -> int { return pm(); } }"),
    ("private:super-call", "class B0 { public constructor() -> B0 = default; private function pm() -> int { return 1; } } class R0 extends B0 { public constructor() -> R0 { super(); return this; } public function m() -> int { return super.pm(); } }",
     "class B0 { public constructor() -> B0 = default; protected function pm() -> int { return 1; } } class R0 extends B0 { public constructor() -> R0 { super(); return this; } public function m() -> int { return super.pm(); } }"),
    ("private:super-ctor", "class B0 { private constructor() -> B0 = default; } class R0 extends B0 { public constructor() -> R0 { super(); return this; } }",
     "class B0 { protected constructor() -> B0 = default; } class R0 extends B0 { public constructor() -> R0 { super(); return this; } }"),
    ("protected:from-unrelated-class", "class B0 { protected int p; public constructor() -> B0 = default; } class R0 { public constructor() -> R0 = default; public function m(B0 b) -> int { return b.p; } }",
     "class B0 { public int p; public constructor() -> B0 = default; } class R0 { public constructor() -> R0 = default; public function m(B0 b) -> int { return b.p; } }"),
    ("private:other-instance-same-class-ok", None, None),
    ("param-redeclared", "function f0(int a) -> int { int a = 2; return a; }", "function f0(int a) -> int { int b = 2; return a; }"),
    ("param-duplicate", "function f0(int a, float a) -> int { return 1; }", "function f0(int a, float b) -> int { return 1; }"),
    ("override-without-base", "class R0 { public constructor() -> R0 = default; public override function m() -> int { return 1; } }",
     "class R0 { public constructor() -> R0 = default; public virtual function m() -> int { return 1; } }"),
    ("abstract-not-implemented", "class B0 { public constructor() -> B0 = default; public virtual function m() -> int; } class R0 extends B0 { public constructor() -> R0 { super(); return this; } } function use0() -> void { R0 r = new R0(); }",
     "class B0 { public constructor() -> B0 = default; public virtual function m() -> int; } class R0 extends B0 { public constructor() -> R0 { super(); return this; } public override function m() -> int { return 1; } } function use0() -> void { R0 r = new R0(); }"),
    ("super-not-first", "class B0 { public constructor() -> B0 = default; } class R0 extends B0 { public int x; public constructor() -> R0 { this.x = 1; super(); return this; } }",
     "class B0 { public constructor() -> B0 = default; } class R0 extends B0 { public int x; public constructor() -> R0 { super(); this.x = 1; return this; } }"),
    ("abstract-not-implemented:passed-through", "class B0 { public constructor() -> B0 = default; public virtual function m() -> int; } class M0 extends B0 { public constructor() -> M0 { super(); return this; } } class R0 extends M0 { public constructor() -> R0 { super(); return this; } } function use0() -> void { R0 r = new R0(); }",
     "class B0 { public constructor() -> B0 = default; public virtual function m() -> int; } class M0 extends B0 { public constructor() -> M0 { super(); return this; } } class R0 extends M0 { public constructor() -> R0 { super(); return this; } public override function m() -> int { return 1; } } function use0() -> void { R0 r = new R0(); }"),
    ("abstract-not-implemented:middle-instantiated", "class B0 { public constructor() -> B0 = default; public virtual function m() -> int; } class M0 extends B0 { public constructor() -> M0 { super(); return this; } } class R0 extends M0 { public constructor() -> R0 { super(); return this; } public override function m() -> int { return 1; } } function use0() -> void { M0 r = new M0(); }",
     "class B0 { public constructor() -> B0 = default; public virtual function m() -> int; } class M0 extends B0 { public constructor() -> M0 { super(); return this; } } class R0 extends M0 { public constructor() -> R0 { super(); return this; } public override function m() -> int { return 1; } } function use0() -> void { M0 r = new R0(); }"),
    ("missing-ctor", "class R0 { public int x; }", "class R0 { public int x; public constructor() -> R0 = default; }"),
    ("duplicate-function", "function d0() -> void { } function d0() -> void { }", "function d0() -> void { } function d1() -> void { }"),
    ("duplicate-method", "class R0 { public constructor() -> R0 = default; public function m(int a) -> int { return 1; } public function m(int b) -> int { return 2; } }",
     "class R0 { public constructor() -> R0 = default; public function m(int a) -> int { return 1; } public function m(long b) -> int { return 2; } }"),
    ("generic-bound", "class G0<T extends Foo> { public constructor() -> G0<T> = default; } function use0() -> void { G0<Other> g = new G0<Other>(); }",
     "class G0<T extends Foo> { public constructor() -> G0<T> = default; } function use0() -> void { G0<Sub> g = new G0<Sub>(); }"),
    ("generic-arity", "class G0<T> { public constructor() -> G0<T> = default; } function use0() -> void { G0<Foo, Foo> g = null; }",
     "class G0<T> { public constructor() -> G0<T> = default; } function use0() -> void { G0<Foo> g = null; }"),
]


def body_text(stmts, ind=1):
    return "".join("    " * ind + s + "\n" for s in stmts)


def program(top, main_stmts, extra_fn=""):
    return PRE + top + extra_fn + "function main() -> void {\n" + LOCALS + body_text(main_stmts) + "}\n"


def filler(rng, n):
    pool = ["int x%d = li + %d;", "echo(ls + %d%d);", "float y%d = lf * %d.0f;", "if (lz) { echo(%d%d); }",
            "long w%d = ll + %dL;", "la[0] = %d%d;", "Foo z%d = new Sub(); // %d"]
    out = []
    for i in range(n):
        t = rng.choice(pool)
        k = rng.randint(100, 999)
        out.append(t % (k, i))
    return out


def build_cases(ctx):
    cases = []   # (rule id, position id, role, source)
    reps = ctx.n(1, 12)
    # (A) type rules x value positions
    for (T, bad, good, rid) in TYPE_RULES:
        for role, E in (("violating", bad), ("twin", good)):
            for pos, stmts, top in value_positions(T, E):
                for rep in range(reps):
                    rng = ctx.rng("A/%s/%s/%d" % (rid, pos, rep))
                    wname, wrap = rng.choice(STMT_WRAPPERS) if rep else STMT_WRAPPERS[0]
                    _, body = wrap(list(stmts))
                    pre = filler(rng, rng.randint(0, 3)) if rep else []
                    post = filler(rng, rng.randint(0, 2)) if rep else []
                    if rep and rng.random() < 0.4:
                        fk = rng.choice(FUNCTION_KINDS)
                        if fk == "static-method":
                            fk = "function"
                        src = PRE + in_function(fk, LOCALS.replace("    ", "        "), pre + body + post) + \
                            "function main() -> void { }\n"
                        wname += "+" + fk
                    else:
                        src = program(top, pre + body + post)
                    cases.append(("type:" + rid, pos + "@" + wname, role, src))
            for pos, top, body in value_positions_decl(T, E):
                if body is None:
                    continue
                if "%s" in top and pos == "return-in-loop":
                    continue
                cases.append(("type:" + rid, pos, role, program(top, body)))
            # return-in-loop needs the conforming value as the fallback return
            tsrc = TYPES[T][0]
            top = "function rr() -> %s {\n%s    while (lz) {\n        return %s;\n    }\n    return %s;\n}\n" % (
                tsrc, LOCALS, E, good)
            cases.append(("type:" + rid, "return-in-loop", role, program(top, [])))
    # (B) statement rules x contexts
    for rid, top, bad, good, where in STMT_RULES:
        for role, stmts in (("violating", bad), ("twin", good)):
            for wname, wrap in STMT_WRAPPERS:
                for rep in range(reps):
                    rng = ctx.rng("B/%s/%s/%d" % (rid, wname, rep))
                    _, body = wrap(list(stmts))
                    pre = filler(rng, rng.randint(0, 3)) if rep else []
                    cases.append((rid, wname, role, program(top, pre + body)))
            for fk in FUNCTION_KINDS:
                src = PRE + top + in_function(fk, LOCALS.replace("    ", "        "), list(stmts)) + \
                    "function main() -> void { }\n"
                cases.append((rid, fk, role, src))
            if len(stmts) <= 2 and not any(s in ("{", "}") for s in stmts):
                # ternary branch: the last statement is the branch
                body = stmts[:-1] + ["lz ? " + stmts[-1] + " : echo(0);"]
                if not stmts[-1].startswith(("final", "int ", "void", "@", "Acc", "St ", "Ab ", "string ", "Foo ", "qubit", "boolean ")):
                    cases.append((rid, "ternary-branch", role, program(top, body)))
    # (C) whole-program rules
    for rid, bad, good in PROGRAM_RULES:
        if bad is None:
            continue
        for role, text in (("violating", bad), ("twin", good)):
            cases.append((rid, "program", role, PRE + text + "\nfunction main() -> void { }\n"))
    cases.append(("quantum-on-main", "program", "violating", PRE + "@quantum function main() -> void { }\n"))
    cases.append(("quantum-on-main", "program", "twin", PRE + "function main() -> void { }\n"))
    cases.append(("private:other-instance-same-class", "program", "twin", PRE +
                  "class R0 { private int p; public constructor() -> R0 = default; public function m(R0 o) -> int { return o.p; } }\nfunction main() -> void { }\n"))
    return cases


def run(ctx):
    ctx.rule = RULE
    ctx.assumptions = ASSUMPTIONS
    cases = build_cases(ctx)
    res = front.run_batch("analyse", [c[3] for c in cases], per_proc=400 if ctx.quick() else 2500)
    rules, positions = set(), set()
    for (rid, pos, role, src), r in zip(cases, res):
        rules.add(rid)
        positions.add(pos.split("@")[0])
        ctx.note_case(src, sample=dict(rule=rid, position=pos, role=role, tail=src[len(PRE):][-400:]))
        ctx.count("pairs_" + role)
        case = dict(rule=rid, position=pos, role=role, source=src)
        if front.skipped(r):
            ctx.count("not_judged_after_repeated_hangs")
            continue
        if r["crash"] is not None:
            ctx.violation("crash:%s" % (r["crash"][1] if len(r["crash"]) > 1 else r["crash"][0],),
                          "analyser crashed on %s@%s" % (rid, pos), case, {"stderr.txt": r["stderr"]})
            continue
        v = [l for l in r["lines"] if isinstance(l, dict) and ("error" in l or "accepted" in l or "raw_exception" in l)]
        if not v:
            ctx.inconclusive_because("no verdict for %s@%s" % (rid, pos))
            continue
        v = v[0]
        posk = re.sub(r"@.*", "", pos)
        if role == "violating":
            if "accepted" in v:
                ctx.violation("rule:%s@%s:accepted-violation" % (rid, posk),
                              "%s in position %s (%s) was accepted" % (rid, pos, src[len(PRE):][-200:].replace("\n", " ")),
                              case, {"prog.bloch": src})
            elif v.get("error") != "Semantic":
                ctx.violation("rule:%s@%s:wrong-category" % (rid, posk),
                              "%s in position %s rejected as %s: %s" % (rid, pos, v.get("error"), v.get("msg", v)),
                              case, {"prog.bloch": src})
        else:
            if "accepted" not in v:
                ctx.violation("rule:%s@%s:rejected-twin" % (rid, posk),
                              "conforming twin of %s in position %s rejected: %s" % (rid, pos, v.get("msg", v)),
                              case, {"prog.bloch": src})
    ctx.counters["rules"] = len(rules)
    ctx.counters["positions"] = len(positions)
    ctx.extra["exhaustive"] = True
    ctx.extra["exhaustive_over"] = "the rule x position matrix listed in vlib/props/c16.py (not over programs)"


def replay(ctx, data):
    src = data["case"]["source"]
    res = front.run_batch("analyse", [src])
    print(src[len(PRE):])
    print(res[0]["lines"])
    v = [l for l in res[0]["lines"] if isinstance(l, dict)]
    role = data["case"]["role"]
    if v and ((role == "violating" and "accepted" in v[0]) or (role == "twin" and "accepted" not in v[0])):
        ctx.violation(data["key"], "replayed", data["case"])
