"""C20: self-update - only strictly newer releases, right checksum line, throttled notice.

harness/updmon.cpp #includes update_manager.cpp (ASan+UBSan build) and drives its helpers and its
two entry points with a virtual clock and scripted network (BLOCH_VERIF override slots); this module
generates the inputs and holds the reference predicates (Python big integers, exact field match,
sliding 72 h window)."""
import os
import re
import shutil

from .. import build, core

PROP = "C20"
RULE = ("(1) a pool of version strings (with/without v, 1-4 components, leading zeros, suffixes, empty, "
        "garbage, whitespace, signs, components around 2^31 and up to 10^30): parse result and ALL ordered "
        "pairs compared with Python tuple order (antisymmetry, agreement); (2) performSelfUpdate and the "
        "first-run notice on (current, latest) pairs with the network scripted: a download attempt or a "
        "notice is allowed iff both versions parse and latest is strictly newer; (3) generated "
        "checksums.txt files (reordered lines, .sig/.asc/.sha256 look-alikes, prefixed and suffixed names, "
        "paths, comments, CRLF, '*' binary marker, tabs, missing entry) against 'the line whose file field "
        "equals the asset name'; (4) histories of checkForUpdatesIfDue calls on one cache file under a "
        "virtual clock with random gaps (minutes..weeks), changing latest tags, fetch failures and the "
        "three skip variables: <= 1 notice per sliding 72 h window, none when disabled, none unless "
        "strictly newer, cache timestamps monotone. Distinct = distinct inputs/histories.")
ASSUMPTIONS = ["real HTTPS, tar extraction and binary replacement are not exercised (no network in the sandbox); "
               "'acting' is observed as a call of the download function",
               "a component that does not fit the implementation's integer may be treated as unparsable "
               "(then nothing may be done) - but never crash",
               "histories use a virtual clock that mostly moves forward; 8 % of the steps go back by seconds to a day (a notice inside 72 h of the last one is a violation whichever way the clock moved)"]

INT_MAX = 2 ** 31 - 1
VER = re.compile(r"^([0-9]+)(?:\.([0-9]+))?(?:\.([0-9]+))?")


def ref_parse(s):
    """(major, minor, patch) as Python ints, or None."""
    v = s[1:] if s.startswith("v") else s
    m = VER.match(v)
    if not m:
        return None
    return tuple(int(x) if x is not None else 0 for x in m.groups())


def fits(t):
    return t is not None and all(c <= INT_MAX for c in t)


def version_pool(rng, n):
    base = ["1.2.3", "v1.2.3", "1.2", "1", "v1", "0.0.0", "0.0.1", "0.1.0", "1.0.0", "1.10.0", "1.9.9", "2.0.0",
            "10.0.0", "1.2.3.4", "01.002.0003", "1.2.3-beta", "1.2.3+build5", "1.2.3-rc.1", "1.2.x", "1.x", "",
            "v", "vv1.2.3", "abc", "latest", "1..2", ".1.2", "1.2.", "1.", " 1.2.3", "1.2.3 ", "1 .2.3", "-1.2.3",
            "1.-2.3", "+1.2.3", "1.2.3\\n", "V1.2.3", "v 1.2.3", "2147483647.0.0", "2147483648.0.0",
            "0.2147483647.0", "0.0.2147483648", "4294967296.1.1", "99999999999.0.0", "1.99999999999.0",
            "1.0.99999999999999999999", "1" + "0" * 30 + ".0.0", "v" + "9" * 40, "0x10.1.1", "1e3.0.0", "١.٢.٣",
            "1.2.3.4.5.6", "00.00.00", "v0", "1.2.3v", "release-1.2.3", "bloch-1.2.3"]
    out = list(base)
    while len(out) < n:
        k = rng.random()
        if k < 0.6:
            parts = [str(rng.choice([0, 1, 2, 3, 9, 10, 11, 99, 100, rng.randint(0, 50)])) for _ in range(rng.randint(1, 4))]
            s = ".".join(parts)
        elif k < 0.75:
            s = ".".join(str(rng.choice([INT_MAX - 1, INT_MAX, INT_MAX + 1, 2 ** 32, 2 ** 63, 10 ** 19])) if rng.random() < 0.5
                         else str(rng.randint(0, 5)) for _ in range(3))
        else:
            s = "".join(rng.choice("0123456789.v-+ abcx") for _ in range(rng.randint(0, 10)))
        if rng.random() < 0.3:
            s = "v" + s
        if rng.random() < 0.15:
            s += rng.choice(["-beta", "+1", " ", "-rc1", ".", "x"])
        if "\t" not in s and "\n" not in s:
            out.append(s)
    # one string per line in the input file: no newlines inside
    seen, uniq = set(), []
    for s in out:
        if s not in seen and "\n" not in s and "\r" not in s:
            seen.add(s)
            uniq.append(s)
    return uniq


def run_updmon(binary, args, cache_dir, timeout=900):
    # a cache home several levels below anything that exists (a fresh account)
    env = {"XDG_CACHE_HOME": os.path.join(cache_dir, "fresh", "home", ".cache"), "HOME": os.path.join(cache_dir, "fresh", "home")}
    # the skip variables must not leak from the harness environment
    r = core.run([binary] + args, env=env, timeout=timeout)
    return r


def part_semver(ctx, binary, root):
    pool = version_pool(ctx.rng("pool"), ctx.n(300, 1500))
    f = os.path.join(root, "versions.txt")
    with open(f, "w", encoding="utf-8") as fh:
        fh.write("\n".join(pool) + "\n")
    r = run_updmon(binary, ["semver", f], root)
    cls = r.classify()
    if cls[0] != "ok":
        ctx.violation("semver:crash:%s" % (cls[1] if len(cls) > 1 else cls[0],), "updmon semver died: %r %s" %
                      (cls, r.stderr[-400:]), dict(part="semver"), {"stderr.txt": r.stderr[-8000:]})
        return
    impl = {}
    ref = [ref_parse(s) for s in pool]
    for line in r.stdout.splitlines():
        p = line.split(" ")
        if p[0] == "S":
            i = int(p[1])
            if p[2] == "EXC":
                impl[i] = "EXC"
                ctx.violation("semver:crash", "parseSemVer(%r) threw %s" % (pool[i], " ".join(p[3:])),
                              dict(part="semver", version=pool[i]))
                continue
            impl[i] = (int(p[2]), int(p[3]), int(p[4]), int(p[5]))
            valid, triple = impl[i][0], impl[i][1:]
            ctx.count("versions_parsed")
            if ref[i] is None or not fits(ref[i]):
                if valid:
                    ctx.violation("semver:parse:accepts-unparsable", "parseSemVer(%r) is valid %r; reference: %r" %
                                  (pool[i], triple, ref[i]), dict(part="semver", version=pool[i]))
            elif not valid or triple != ref[i]:
                ctx.violation("semver:parse", "parseSemVer(%r) = valid=%d %r; reference %r" %
                              (pool[i], valid, triple, ref[i]), dict(part="semver", version=pool[i]))
    cmp = {}
    for line in r.stdout.splitlines():
        if line.startswith("C "):
            _, i, j, c, hl = line.split(" ")
            cmp[(int(i), int(j))] = (int(c), int(hl))
    for (i, j), (c, hl) in cmp.items():
        ctx.count("pairs_compared")
        vi, vj = impl.get(i), impl.get(j)
        if vi in (None, "EXC") or vj in (None, "EXC"):
            continue
        both = vi[0] and vj[0] and fits(ref[i]) and fits(ref[j])
        if both:
            want = (ref[i] > ref[j]) - (ref[i] < ref[j])   # compare(current=i, latest=j)
            if c != want:
                ctx.violation("semver:order", "compare(%r, %r) = %d, numeric order says %d" % (pool[i], pool[j], c, want),
                              dict(part="semver", pair=[pool[i], pool[j]]))
            if hl != (1 if ref[i] >= ref[j] else 0):
                ctx.violation("semver:hasLatest", "hasLatest(%r, %r) = %d" % (pool[i], pool[j], hl),
                              dict(part="semver", pair=[pool[i], pool[j]]))
        if (j, i) in cmp and cmp[(j, i)][0] != -c:
            ctx.violation("semver:antisymmetry", "compare(%r,%r)=%d but compare(%r,%r)=%d" %
                          (pool[i], pool[j], c, pool[j], pool[i], cmp[(j, i)][0]), dict(part="semver"))
    ctx.note_case(("semver", len(pool)), sample=dict(part="semver", pool_head=pool[:12]))
    with ctx.lock:
        ctx.evaluations += len(cmp)
        ctx.distinct_extra += len(cmp)
    return pool


def part_decide(ctx, binary, root, pool):
    rng = ctx.rng("decide")
    pairs = []
    good = [s for s in pool if fits(ref_parse(s))]
    for _ in range(ctx.n(400, 5000)):
        a = rng.choice(pool if rng.random() < 0.4 else good)
        b = rng.choice(pool if rng.random() < 0.4 else good)
        if "\t" in a or "\t" in b:
            continue
        pairs.append((a, b))
    pairs += [("1.2.3", "1.2.3"), ("1.2.3", "1.2.4"), ("1.2.4", "1.2.3"), ("1.2.3", "2.0.0"), ("", "1.2.3"),
              ("1.2.3", ""), ("abc", "1.0.0"), ("1.0.0", "abc"), ("1.0.0", "99999999999.0.0"), ("99999999999.0.0", "1.0.0"),
              ("v1.2.3", "v1.2.3"), ("1.2", "1.2.0"), ("1.2.0", "1.2")]
    f = os.path.join(root, "pairs.txt")
    with open(f, "w", encoding="utf-8") as fh:
        fh.write("\n".join("%s\t%s" % p for p in pairs) + "\n")
    r = run_updmon(binary, ["decide", f], root)
    cls = r.classify()
    if cls[0] != "ok":
        ctx.violation("update:crash:%s" % (cls[1] if len(cls) > 1 else cls[0],), "updmon decide died: %r %s" %
                      (cls, r.stderr[-600:]), dict(part="decide"), {"stderr.txt": r.stderr[-8000:]})
        return
    for line in r.stdout.splitlines():
        if not line.startswith("D "):
            continue
        head, rest = line[2:].split(" ", 1)
        i = int(head)
        cur, latest = pairs[i]
        f1 = rest.split("|")
        verdict, nverdict = f1[0], f1[5]
        kv = dict(x.split("=") for x in f1 if "=" in x and not x.startswith("EXC"))
        ctx.note_case(("decide", cur, latest), sample=dict(part="decide", current=cur, latest=latest, result=rest))
        ctx.count("decisions_checked")
        case = dict(part="decide", current=cur, latest=latest)
        if verdict.startswith("EXC") or nverdict.startswith("EXC"):
            ctx.violation("update:crash", "version pair (%r, %r) raised: %s / %s" % (cur, latest, verdict, nverdict), case)
            continue
        rc, rl = ref_parse(cur), ref_parse(latest)
        parsable = fits(rc) and fits(rl)
        newer = parsable and rl > rc
        downloads = int(kv.get("downloads", 0))
        notice = int(kv.get("notice", 0))
        if downloads and not newer:
            why = "unparsable" if not parsable else ("equal" if rl == rc else "older")
            ctx.violation("update:acts-on-" + why, "performSelfUpdate(%r) with latest %r attempted a download" %
                          (cur, latest), case)
        if newer and not downloads:
            ctx.violation("update:ignores-newer", "latest %r is newer than %r but no download was attempted" %
                          (latest, cur), case)
        if parsable and not newer and not int(kv.get("saidLatest", 0)):
            ctx.violation("update:no-already-latest", "(%r, %r): not newer, but 'already latest' was not reported" %
                          (cur, latest), case)
        if notice and not newer:
            ctx.violation("notice:not-newer", "notice printed for current %r, latest %r" % (cur, latest), case)


HEX = "0123456789abcdef"


def gen_checksums(rng):
    asset = "bloch-v%d.%d.%d-%s-%s.tar.gz" % (rng.randint(0, 3), rng.randint(0, 20), rng.randint(0, 9),
                                               rng.choice(["Linux", "macOS"]), rng.choice(["X64", "ARM64"]))

    def h():
        return "".join(rng.choice(HEX) for _ in range(64))

    decoys = [asset + ".sig", asset + ".asc", asset + ".sha256", "old-" + asset, "dist/" + asset, "./" + asset,
              asset.replace("X64", "ARM64") if "X64" in asset else asset.replace("ARM64", "X64"),
              asset.replace("Linux", "macOS") if "Linux" in asset else asset.replace("macOS", "Linux"),
              asset[:-3], asset + "2", "x" + asset, asset.replace("tar.gz", "zip"), asset.upper()]
    lines = []
    truth = None
    present = rng.random() < 0.8
    entries = rng.sample(decoys, rng.randint(0, 6))
    if present:
        entries.append(asset)
    rng.shuffle(entries)
    sep_style = rng.choice(["two", "star", "tab", "one"])
    for name in entries:
        hv = h()
        sep = {"two": "  ", "star": " *", "tab": "\t", "one": " "}[sep_style]
        lines.append(hv + sep + name)
        if name == asset and truth is None:
            truth = hv
    extras = rng.sample(["", "# checksums for " + asset, "SHA256 (" + asset + ") = " + h(), asset, "  ", h()],
                        rng.randint(0, 3))
    for e in extras:
        lines.insert(rng.randrange(len(lines) + 1), e)
    eol = rng.choice(["\n", "\n", "\r\n"])
    content = eol.join(lines) + (eol if rng.random() < 0.8 else "")
    return asset, content, truth


def ref_checksum(content, asset):
    for line in content.split("\n"):
        line = line.rstrip("\r")
        parts = line.split()
        if len(parts) == 2:
            name = parts[1][1:] if parts[1].startswith("*") else parts[1]
            if name == asset:
                return parts[0]
    return None


def part_checksum(ctx, binary, root):
    n = ctx.n(2000, 40000)
    d = os.path.join(root, "cs")
    os.makedirs(d)
    cases = []
    for i in range(n):
        asset, content, truth = gen_checksums(ctx.rng("cs%d" % i))
        with open(os.path.join(d, "c%d.txt" % i), "w", newline="") as f:
            f.write(content)
        with open(os.path.join(d, "c%d.asset" % i), "w") as f:
            f.write(asset)
        cases.append((asset, content, ref_checksum(content, asset)))
    r = run_updmon(binary, ["checksum", d, str(n)], root)
    cls = r.classify()
    if cls[0] != "ok":
        ctx.violation("checksum:crash:%s" % (cls[1] if len(cls) > 1 else cls[0],), "updmon checksum died: %r" % (cls,),
                      dict(part="checksum"), {"stderr.txt": r.stderr[-8000:]})
        return
    for line in r.stdout.splitlines():
        if not line.startswith("K "):
            continue
        p = line.split(" ")
        i = int(p[1])
        asset, content, want = cases[i]
        got = p[3] if p[2] == "HASH" else None
        ctx.note_case(("cs", content, asset), sample=dict(part="checksum", asset=asset, content=content[:300]))
        ctx.count("checksum_files")
        case = dict(part="checksum", asset=asset, content=content)
        if p[2] == "EXC":
            ctx.violation("checksum:crash", "parseChecksum threw", case)
        elif got != want:
            if want is None:
                key = "checksum:wrong-line:entry-missing"
            elif got is None:
                key = "checksum:missing"
            else:
                key = "checksum:wrong-line"
            ctx.violation(key, "asset %s: parseChecksum returned %r, the asset's own line lists %r" %
                          (asset, got, want), case, {"checksums.txt": content})


def part_history(ctx, binary, root):
    nh = ctx.n(500, 8000)
    script = []
    meta = []
    for hI in range(nh):
        rng = ctx.rng("hist%d" % hI)
        script.append("RESET")
        cur = rng.choice(["1.2.0", "v1.2.0", "1.2.0-dev", "0.9.9", "2.0.0"])
        t = 1700000000 + rng.randint(0, 10 ** 6)
        latest = rng.choice(["1.2.0", "1.3.0", "v1.2.1"])
        calls = []
        for _ in range(rng.randint(5, 40)):
            t += rng.choice([60, 600, 3600, 7200, 86400, 3 * 86400 - 1, 3 * 86400, 3 * 86400 + 1, 7 * 86400,
                             rng.randint(1, 4 * 86400)])
            if rng.random() < 0.08:
                # the wall clock steps back a little (NTP step, VM resume): still inside every window
                t -= rng.choice([1, 30, 3600, 86400 + 5]) + rng.choice([60, 600, 3600, 7200, 86400])
            if rng.random() < 0.25:
                latest = rng.choice(["1.2.0", "1.3.0", "v2.0.0", "1.2.1", "garbage", "0.1.0", "99999999999.0.0",
                                     "1.3.0-rc1", "v1.2.0"])
            tag = "FAIL" if rng.random() < 0.15 else latest
            env = rng.choice(["-"] * 8 + ["BLOCH_NO_UPDATE_CHECK", "CI", "BLOCH_OFFLINE"])
            script.append("CALL %d %s %s %s" % (t, cur, tag, env))
            calls.append((t, cur, tag, env))
        meta.append(calls)
    f = os.path.join(root, "history.txt")
    with open(f, "w") as fh:
        fh.write("\n".join(script) + "\n")
    r = run_updmon(binary, ["history", f], root, timeout=1800)
    cls = r.classify()
    if cls[0] != "ok":
        ctx.violation("notice:crash:%s" % (cls[1] if len(cls) > 1 else cls[0],), "updmon history died: %r %s" %
                      (cls, r.stderr[-600:]), dict(part="history"), {"stderr.txt": r.stderr[-8000:]})
        return
    out = [l for l in r.stdout.splitlines() if l.startswith(("H ", "R"))]
    hI = -1
    k = 0
    state = None
    for line in out:
        if line == "R":
            hI += 1
            k = 0
            state = dict(last_notice=None, checked=0, notified=0, tmax=0, stepped_back=False)
            ctx.note_case(("hist", hI), sample=dict(part="history", calls=meta[hI][:5]) if hI < 3 else None)
            continue
        t, cur, tag, env = meta[hI][k]
        k += 1
        if t < state["tmax"]:
            state["stepped_back"] = True
        state["tmax"] = max(state["tmax"], t)
        rest = line.split(" ", 2)[2]
        f1 = rest.split("|")
        kv = dict(x.split("=", 1) for x in f1[1:])
        ctx.count("history_calls")
        case = dict(part="history", history=hI, call=k - 1, calls=meta[hI][:k])
        if f1[0].startswith("EXC"):
            ctx.violation("notice:crash", "checkForUpdatesIfDue raised %s (current %s, latest %s)" % (f1[0], cur, tag), case)
            continue
        n = int(kv["notices"])
        if n > 1:
            ctx.violation("notice:window", "%d notices printed by one invocation" % n, case)
        if n:
            ctx.count("notices_seen")
            if env != "-":
                ctx.violation("notice:disabled", "notice printed although %s is set" % env, case)
            if state["last_notice"] is not None and t - state["last_notice"] < 72 * 3600:
                ctx.violation("notice:window", "two notices %d s apart (< 72 h)" % (t - state["last_notice"]), case)
            state["last_notice"] = max(t, state["last_notice"] or 0)
            rc, rl = ref_parse(cur), ref_parse(kv["mentioned"])
            if not (fits(rc) and fits(rl) and rl > rc):
                ctx.violation("notice:not-newer", "notice mentions %r while running %r" % (kv["mentioned"], cur), case)
        c = kv["cache"].split(",")
        if c[0] != "-":
            try:
                chk, ntf = int(c[0]), int(c[2]) if c[2] != "-" else 0
            except ValueError:
                ctx.violation("notice:cache-format", "cache file has non-numeric timestamps: %r" % (c,), case)
                continue
            if (chk < state["checked"] or ntf < state["notified"]) and not state["stepped_back"]:
                ctx.violation("notice:cache-backwards", "cache timestamps went backwards: %r -> %r" %
                              ((state["checked"], state["notified"]), (chk, ntf)), case)
            state["checked"], state["notified"] = chk, ntf


def run(ctx):
    ctx.rule = RULE
    ctx.assumptions = ASSUMPTIONS
    binary = build.build("updmon", "asan")
    root = core.scratch_dir("upd")
    for k in ("BLOCH_NO_UPDATE_CHECK", "CI", "BLOCH_OFFLINE"):
        core.BASE_ENV.pop(k, None)
        os.environ.pop(k, None)
    try:
        pool = part_semver(ctx, binary, root) or []
        part_decide(ctx, binary, root, pool)
        part_checksum(ctx, binary, root)
        part_history(ctx, binary, root)
    finally:
        shutil.rmtree(root, ignore_errors=True)


def replay(ctx, data):
    run(ctx)
