"""C09: scoping is lexical - consistently renaming a local or parameter of one function/method
never changes a program's behaviour.

Metamorphic check on executions: a generated program is run next to capture-avoiding renamings of
one unit's locals/parameters to (a) fresh names, (b) locals/parameters of other units on the call
chain, (c) instance-field names, (d) static-field names.  stdout and exit status must be
identical.  A differing pair is keyed by the kind of name the local collided with."""
import re

from .. import build, core

PROP = "C09"
RULE = ("programs with 2 classes (instance + static int fields, one private field, destructors that use fields by bare "
        "name, objects that die mid-unit through block exit or destroy, methods that read/write fields "
        "and statics by bare name and via this, calls between methods and free functions), 3-5 "
        "free functions and main, integer state only; for each program every capture-avoiding "
        "renaming (unit, local or parameter, target name) is enumerated up to a cap: targets are "
        "a fresh name, every local/parameter name of every other unit, every instance field name, "
        "every static field name. Distinct = distinct (program, renaming) pairs; non-trivial = the "
        "target name is used somewhere else in the program (a collision candidate).")
ASSUMPTIONS = ["renamings are capture-avoiding by construction: the target is never a name the renamed "
               "unit itself uses freely (bare field/static of its own class hierarchy, function, class) "
               "nor another local/parameter of the same unit; only such renamings preserve meaning "
               "under the documented lexical rules",
               "collections masked (BLOCH_VERIF_GC=none)"]

FIELDS_A = ["count", "total", "size"]
FIELDS_B = ["level", "extra"]
STATICS = ["made", "hits"]
PRIVATE_A = ["secret"]      # private to A: not nameable from B's methods, so a B local may carry the name


class Unit:
    def __init__(self, kind, name, cls, params, ret):
        self.kind, self.name, self.cls, self.params, self.ret = kind, name, cls, params, ret
        self.locals = []
        self.loopvars = []   # loop counters: renamable, never referenced after their loop
        self.body = []       # lines with {placeholders}
        self.free = set()    # bare field/static names used
        self.calls = set()   # unit names called


class Gen:
    def __init__(self, rng):
        self.r = rng
        self.uid = 0
        self.units = []

    def fresh(self, p):
        self.uid += 1
        return "%s%d" % (p, self.uid)

    def int_expr(self, u, depth=2):
        r = self.r
        names = ["{%s}" % n for n in u.locals + [p for p, t in u.params if t == "int"]]
        k = r.random()
        if depth <= 0 or k < 0.3:
            if names and r.random() < 0.7:
                return r.choice(names)
            return str(r.randint(1, 9))
        if k < 0.36 and depth > 0 and u.kind != "dtor":
            # first use of a generic specialisation: its statics are initialised on the spot, in the middle
            # of whatever unit happens to run
            u.calls.add("Gen")
            return "new Gen<int>(%s).get()" % self.int_expr(u, depth - 1)
        if k < 0.55 and u.cls:
            f = r.choice(self.fields_of(u.cls) + STATICS)
            if u.kind == "static":
                f = r.choice(STATICS)
            u.free.add(f)
            return f if r.random() < 0.7 or f in STATICS or u.kind == "static" else "this." + f
        if k < 0.8:
            return "(%s %s %s)" % (self.int_expr(u, depth - 1), r.choice("+-*"), self.int_expr(u, depth - 1))
        callee = self.callable_from(u)
        if callee:
            return callee
        return str(r.randint(1, 9))

    def fields_of(self, cls):
        return FIELDS_A + (FIELDS_B if cls == "B" else PRIVATE_A)

    def callable_from(self, u):
        r = self.r
        cands = []
        for v in self.units:
            if v is u or v.ret != "int":
                continue
            if v.kind == "function":
                args = ", ".join(self.arg_for(u, t) for _, t in v.params)
                if "?" not in args:
                    cands.append((v.name, "%s(%s)" % (v.name, args)))
            elif v.kind == "method" and u.cls and (u.cls == v.cls or (u.cls == "B" and v.cls == "A")) \
                    and u.kind in ("method", "ctor-body"):
                args = ", ".join(self.arg_for(u, t) for _, t in v.params)
                if "?" not in args:
                    cands.append((v.name, "%s%s(%s)" % (r.choice(["", "this."]), v.name, args)))
            elif v.kind == "method":
                objs = [p for p, t in u.params if t == v.cls or (t == "B" and v.cls == "A")] + \
                       [o for o, t in getattr(u, "objs", []) if t == v.cls or (t == "B" and v.cls == "A")]
                if objs:
                    args = ", ".join(self.arg_for(u, t) for _, t in v.params)
                    if "?" not in args:
                        cands.append((v.name, "{%s}.%s(%s)" % (r.choice(objs), v.name, args)))
            elif v.kind == "static":
                cands.append((v.name, "%s.%s()" % (v.cls, v.name)))
        if not cands:
            return None
        name, text = r.choice(cands)
        u.calls.add(name)
        return text

    def arg_for(self, u, t):
        if t == "int":
            names = ["{%s}" % n for n in u.locals + [p for p, pt in u.params if pt == "int"]]
            return self.r.choice(names) if names and self.r.random() < 0.7 else str(self.r.randint(1, 9))
        objs = [p for p, pt in u.params if pt == t or (pt == "B" and t == "A")] + \
               [o for o, ot in getattr(u, "objs", []) if ot == t or (ot == "B" and t == "A")]
        if objs:
            return "{%s}" % self.r.choice(objs)
        if u.cls and (u.cls == t or (u.cls == "B" and t == "A")) and u.kind == "method":
            return "this"
        return "?"

    def body(self, u, n):
        r = self.r
        for _ in range(n):
            k = r.random()
            if k < 0.3:
                e = self.int_expr(u)
                name = self.fresh(r.choice(["v", "acc", "tmp", "n"]))
                u.body.append("int {%s} = %s;" % (name, e))
                u.locals.append(name)
            elif k < 0.45 and u.locals:
                u.body.append("{%s} = %s;" % (r.choice(u.locals), self.int_expr(u)))
            elif k < 0.6 and u.cls and u.kind != "static":
                f = r.choice(self.fields_of(u.cls))
                u.free.add(f)
                u.body.append("%s = %s;" % (f if r.random() < 0.7 else "this." + f, self.int_expr(u)))
            elif k < 0.7 and u.cls:
                s = r.choice(STATICS)
                u.free.add(s)
                u.body.append("%s = %s + 1;" % (s, s))
            elif k < 0.80:
                u.body.append('echo("%s:" + %s);' % (u.name, self.int_expr(u)))
            elif k < 0.87 and u.locals:
                v = r.choice(u.locals)
                u.body.append("if ({%s} > %d) {" % (v, r.randint(0, 20)))
                u.body.append("    {%s} = {%s} - %d;" % (v, v, r.randint(1, 5)))
                u.body.append("}")
            elif k < 0.92 and u.kind in ("function", "main", "method"):
                # an object that dies in the middle of this unit (block exit or destroy): its destructors
                # run while this unit's locals are live
                t = self.fresh("t")
                u.loopvars.append(t)
                cls = r.choice(["A", "B"])
                if r.random() < 0.5:
                    u.body.append("{")
                    u.body.append("    %s {%s} = new %s(%d);" % (cls, t, cls, r.randint(1, 9)))
                    u.body.append('    echo("%s:" + {%s}.size);' % (u.name, t))
                    u.body.append("}")
                elif r.random() < 0.5:
                    u.body.append("%s {%s} = new %s(%d);" % (cls, t, cls, r.randint(1, 9)))
                    u.body.append("destroy {%s};" % t)
                else:
                    # the variable is still declared after 'destroy': assigning and reading it again
                    u.body.append("%s {%s} = new %s(%d);" % (cls, t, cls, r.randint(1, 9)))
                    u.body.append("destroy {%s};" % t)
                    u.body.append("{%s} = new %s(%d);" % (t, cls, r.randint(1, 9)))
                    u.body.append('echo("%s:" + {%s}.size);' % (u.name, t))
                    u.body.append("destroy {%s};" % t)
            elif u.kind not in ("main", "dtor"):
                # early return from inside a loop (the loop's scope must still be closed)
                j = self.fresh("j")
                u.loopvars.append(j)
                form = r.choice(["for", "for", "while"])
                lim = r.randint(1, 4)
                if form == "for":
                    u.body.append("for (int {%s} = 0; {%s} < %d; {%s} = {%s} + 1) {" % (j, j, lim, j, j))
                else:
                    u.body.append("int {%s} = 0;" % j)
                    u.body.append("while ({%s} < %d) {" % (j, lim))
                u.body.append("    if ({%s} == %d) {" % (j, r.randint(0, lim)))
                rexpr = self.int_expr(u, 1)
                u.body.append("        return %s;" % rexpr)
                # members named bare inside the loop (the loop variable must not take these names)
                if not hasattr(u, "loop_free"):
                    u.loop_free = {}
                if form == "for":       # (a while loop's counter is declared in the enclosing block)
                    u.loop_free[j] = set(re.findall(r"(?<![\w.{])([A-Za-z_]\w*)(?![\w}])", rexpr))
                u.body.append("    }")
                if form == "while":
                    u.body.append("    {%s} = {%s} + 1;" % (j, j))
                u.body.append("}")

    def program(self):
        r = self.r
        # methods of A, then B, then functions (a unit may call only earlier units: no recursion)
        for cls in ("A", "B"):
            for i in range(r.randint(2, 3)):
                u = Unit("method", self.fresh("m"), cls, [(self.fresh("p"), "int") for _ in range(r.randint(0, 2))], "int")
                self.units.append(u)
                self.body(u, r.randint(2, 5))
                u.body.append("return %s;" % self.int_expr(u))
            u = Unit("static", self.fresh("st"), cls, [], "int")
            self.units.append(u)
            self.body(u, r.randint(1, 2))
            u.body.append("return %s;" % self.int_expr(u))
            u = Unit("dtor", "dtor" + cls, cls, [], "void")
            self.units.append(u)
            # every destructor has a top-level local of its own (B's and A's bodies run back to back)
            dl = self.fresh("d")
            u.body.append("int {%s} = %d;" % (dl, 1000 + r.randint(1, 9)))
            u.locals.append(dl)
            self.body(u, r.randint(1, 3))
            u.body.append('echo("~%s.local:" + {%s});' % (cls, dl))
            f = r.choice(self.fields_of(cls))
            u.free.add(f)
            u.body.append('echo("~%s:" + %s);' % (cls, f))
        for i in range(r.randint(3, 5)):
            params = [(self.fresh("q"), r.choice(["int", "int", "A", "B"])) for _ in range(r.randint(1, 3))]
            u = Unit("function", self.fresh("fn"), None, params, "int")
            self.units.append(u)
            self.body(u, r.randint(2, 5))
            u.body.append("return %s;" % self.int_expr(u))
        main = Unit("main", "main", None, [], "void")
        main.objs = []
        for cls in ("A", "B", r.choice(["A", "B"])):
            o = self.fresh("o")
            main.objs.append((o, cls))
            main.body.append("%s {%s} = new %s(%d);" % (cls, o, cls, r.randint(1, 9)))
        self.units.append(main)
        self.body(main, r.randint(4, 8))
        for _ in range(r.randint(2, 5)):
            c = self.callable_from(main)
            if c:
                main.body.append('echo("main:" + %s);' % c)
        for o, cls in main.objs:
            main.body.append('echo({%s}.count + {%s}.total);' % (o, o))
        # objects die one at a time, in program order (the order at a common scope exit is not fixed)
        for o, cls in main.objs:
            main.body.append('destroy {%s};' % o)
        return self

    def names_of(self, u):
        return u.locals + u.loopvars + [p for p, _ in u.params] + [o for o, _ in getattr(u, "objs", [])]

    def render(self, rename=None):
        """rename: (unit name, old, new) or None"""
        out = []

        def fmt(u, line):
            m = {n: n for n in self.names_of(u)}
            if rename and rename[0] == u.name:
                m[rename[1]] = rename[2]
            return re.sub(r"\{(\w+)\}", lambda mo: m[mo.group(1)], line)

        out.append("class Gen<T> {\n    public static int gseen = 5;\n    public static int gnext = gseen + 1;\n    public T item;\n"
                   "    public constructor(T item) -> Gen<T> {\n        this.item = item;\n        gseen = gseen + 1;\n        return this;\n    }\n"
                   "    public function get() -> T {\n        return this.item;\n    }\n}")
        for cls in ("A", "B"):
            out.append("class %s%s {" % (cls, " extends A" if cls == "B" else ""))
            # later field initialisers name earlier (and, in B, inherited) fields by bare name: an initialiser is
            # not inside the constructor, so a constructor parameter that carries a field's name must not
            # capture it (the ctor-param-as-member renamings below exercise exactly that)
            inits = ({"count": "5", "total": "count + 5", "size": "total + count + 4"} if cls == "A"
                     else {"level": "5", "extra": "level + size + count + total"})
            for f in (FIELDS_A if cls == "A" else FIELDS_B):
                out.append("    public int %s = %s;" % (f, inits[f]))
            if cls == "A":
                for f in PRIVATE_A:
                    out.append("    private int %s = %d;" % (f, len(f)))
            if cls == "A":
                for s in STATICS:
                    out.append("    public static int %s = 0;" % s)
                c0 = rename[2] if rename and rename[0] == "ctorA" else "c0"
                out.append("    public constructor(int %s) -> A {\n        count = %s;\n        made = made + 1;\n        return this;\n    }" % (c0, c0))
            else:
                c1 = rename[2] if rename and rename[0] == "ctorB" else "c1"
                out.append("    public constructor(int %s) -> B {\n        super(%s + 1);\n        level = %s;\n        return this;\n    }" % (c1, c1, c1))
            for u in self.units:
                if u.cls != cls:
                    continue
                ps = ", ".join("%s %s" % (t, fmt(u, "{%s}" % p)) for p, t in u.params)
                if u.kind == "dtor":
                    out.append("    public destructor() -> void {")
                else:
                    out.append("    public %sfunction %s(%s) -> int {" % ("static " if u.kind == "static" else "", u.name, ps))
                for line in u.body:
                    out.append("        " + fmt(u, line))
                out.append("    }")
            out.append("}")
        for u in self.units:
            if u.kind == "function":
                ps = ", ".join("%s %s" % (t, fmt(u, "{%s}" % p)) for p, t in u.params)
                out.append("function %s(%s) -> int {" % (u.name, ps))
                for line in u.body:
                    out.append("    " + fmt(u, line))
                out.append("}")
        u = self.units[-1]
        out.append("function main() -> void {")
        for line in u.body:
            out.append("    " + fmt(u, line))
        out.append("}")
        return "\n".join(out) + "\n"

    def renamings(self):
        """All capture-avoiding renamings (unit, old, new, kind)."""
        out = []
        all_locals = {}
        for u in self.units:
            for n in self.names_of(u):
                all_locals.setdefault(n, u.name)
        fixed = {"c0", "c1"}
        # constructor parameters may carry the name of any member their body does not use bare
        for f in ["total", "size", "secret", "hits"]:
            out.append(("ctorA", "c0", f, "ctor-param-as-member"))
        for f in ["extra", "count", "total", "size", "hits", "made"]:
            out.append(("ctorB", "c1", f, "ctor-param-as-member"))
        for u in self.units:
            own = set(self.names_of(u))
            # names the unit's body uses freely (must not be captured)
            free = set(u.free) | {v.name for v in self.units} | {"A", "B", "Gen", "this", "echo"}
            if u.cls and u.kind == "static":
                # a static method can name statics only: an instance-field name is free for its locals
                free |= set(STATICS)
            # (a method may shadow a field or static of its own class with a local or parameter as long as
            # its body does not use that member by bare name: u.free holds the members it does use)
            for old in sorted(getattr(u, "loop_free", {})):
                # a loop variable is in scope inside its loop only: it may take the name of a member that the
                # unit uses bare elsewhere, as long as the loop itself does not
                inside = u.loop_free[old] | {v.name for v in self.units} | {"A", "B", "Gen", "this", "echo"}
                for f in FIELDS_A + FIELDS_B + PRIVATE_A + STATICS:
                    if f in u.free and f not in inside and f not in own and u.cls:
                        out.append((u.name, old, f, "loop-var-as-member"))
            for old in sorted(own):
                out.append((u.name, old, "zz_fresh_%s" % old, "fresh"))
                for tgt, owner in sorted(all_locals.items()):
                    if owner != u.name and tgt not in own and tgt not in free:
                        out.append((u.name, old, tgt, "other-local"))
                for f in FIELDS_A + FIELDS_B + PRIVATE_A:
                    if f not in free and f not in own:
                        out.append((u.name, old, f, "field"))
                for s in STATICS + ["gseen", "gnext", "item"]:
                    if s not in free and s not in own:
                        out.append((u.name, old, s, "static"))
                for c in fixed:
                    if c not in own:
                        out.append((u.name, old, c, "ctor-param"))
        return out


def outcome(r):
    c = r.classify()
    if c[0] == "ok":
        return ("ok", r.stdout)
    if c[0] == "diag":
        return ("diag", c[1], c[4])
    return c


def run(ctx):
    ctx.rule = RULE
    ctx.assumptions = ASSUMPTIONS
    binary = build.build("bloch", "asan")
    nprog = ctx.n(60, 700)
    cap = ctx.n(24, 60)
    jobs = []
    for i in range(nprog):
        g = Gen(ctx.rng(i)).program()
        ren = g.renamings()
        r = ctx.rng("pick%d" % i)
        # keep every kind represented, then fill up randomly
        picked = []
        for kind in ("fresh", "other-local", "field", "static", "ctor-param"):
            ks = [x for x in ren if x[3] == kind]
            r.shuffle(ks)
            picked += ks[:cap // 5]
        # destructors: every local against every field/static name it may legally take (the bodies of a
        # derived and a base destructor run one after the other for the same object)
        ks = [x for x in ren if x[0].startswith("dtor") and x[3] in ("field", "static") and x not in picked]
        r.shuffle(ks)
        picked += ks[:cap // 3]
        ks = [x for x in ren if x[3] in ("ctor-param-as-member", "loop-var-as-member")]
        r.shuffle(ks)
        picked += ks[:cap // 2]
        # object-typed locals of methods (created, destroyed, assigned again) against the fields of their class
        meth = {u.name for u in g.units if u.kind == "method"}
        ks = [x for x in ren if x[0] in meth and re.match(r"t\d+$", x[1]) and x[3] in ("field", "static") and x not in picked]
        r.shuffle(ks)
        picked += ks[:cap // 3]
        jobs.append((i, g, None))
        for x in picked:
            jobs.append((i, g, x))

    def one(job):
        i, g, ren = job
        src = g.render(ren[:3] if ren else None)
        r, _, _, _ = core.run_bloch(binary, src, env={"BLOCH_VERIF_GC": "none"}, timeout=60)
        return job, src, r

    base = {}
    results = core.pmap(one, jobs)
    for (i, g, ren), src, r in results:
        if ren is None:
            base[i] = (src, r)
    for (i, g, ren), src, r in results:
        bsrc, br = base[i]
        if ren is None:
            c = br.classify()
            ctx.count("base_programs")
            if c[0] not in ("ok",) and not (c[0] == "diag" and c[1] == "Runtime"):
                if c[0] == "diag":
                    ctx.inconclusive_because("base program %d rejected: %s" % (i, c[4][:80]))
                else:
                    ctx.violation("crash:%s" % (c[1] if len(c) > 1 else c[0],), "base program crashed: %r" % (c,),
                                  dict(index=i), {"prog.bloch": src, "stderr.txt": r.stderr[-4000:]})
            continue
        ctx.note_case((i, ren), nontrivial=ren[3] != "fresh", sample=dict(program=i, renaming=list(ren)))
        ctx.count("renamings_" + ren[3])
        a, b = outcome(br), outcome(r)
        if a == b:
            continue
        unit = next((u for u in g.units if u.name == ren[0]), None)
        where = "constructor" if unit is None else {"function": "function", "method": "method", "static": "static-method",
                                                    "main": "main", "dtor": "destructor"}[unit.kind]
        how = "status" if a[0] != b[0] else "output"
        if b[0] == "diag" and b[1] == "Semantic":
            key = "scope:%s-in-%s:rejected" % (ren[3], where)
        else:
            key = "scope:%s-in-%s:%s" % (ren[3], where, how)
        ctx.violation(key, "renaming %s's '%s' to '%s' (%s) changed the %s: %r -> %r" %
                      (ren[0], ren[1], ren[2], ren[3], how, str(a)[:150], str(b)[:150]),
                      dict(index=i, renaming=list(ren)),
                      {"base.bloch": bsrc, "renamed.bloch": src, "base.out": br.stdout + br.stderr[-500:],
                       "renamed.out": r.stdout + r.stderr[-500:]})


def replay(ctx, data):
    binary = build.build("bloch", "asan")
    i = data["case"]["index"]
    g = Gen(ctx.rng(i)).program()
    ren = data["case"].get("renaming")
    outs = []
    for rn in (None, ren):
        src = g.render(tuple(rn[:3]) if rn else None)
        r, _, _, _ = core.run_bloch(binary, src, env={"BLOCH_VERIF_GC": "none"})
        outs.append(outcome(r))
    print(outs)
    if outs[0] != outs[1]:
        ctx.violation(data["key"], "replayed: %r vs %r" % (outs[0], outs[1]), data["case"])
