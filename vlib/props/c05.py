"""C05: the emitted OpenQASM 2.0 is well formed and replays to the simulated state
(translation validation: every emitted listing is validated against the execution that produced it)."""
import os

from .. import build, core, qasm2, qlang, qref

PROP = "C05"
LEVEL = "translation_validation"
RULE = ("generated Bloch programs (profile 'qasm': gates through functions, @quantum functions, methods, "
        "loops, conditionals on measured bits, qubit arrays, object qubit fields, resets, destroy and "
        "index reuse; single- and multi-shot) run with --emit-qasm (two thirds) or without it, in which case "
        "the listing is the .qasm file written next to the source. Per program: the text is parsed by "
        "a strict OpenQASM 2 reader for the emitted subset, register sizes = qubits allocated, operands "
        "in range, cx on distinct qubits, the operation list equals the traced simulator operations of "
        "the last execution one-for-one, the listing is replayed on an independent state-vector "
        "interpreter with the recorded measure/reset outcomes and compared with the simulator's final "
        "amplitudes (global phase, 3e-7 per rotation: angles are printed with six decimals), and the .qasm file equals the --emit-qasm output.")
ASSUMPTIONS = ["only the emitted subset of OpenQASM 2 is parsed (header, include, one qreg/creg, h x y z rx ry rz cx reset measure)",
               "the traced simulator operations (simPost hook) are the ground truth for 'every operation the program performed'",
               "programs allocate at least one qubit"]


def check_case(ctx, binary, case):
    rng = ctx.rng("%s/%d" % (case["profile"], case["index"]))
    shots = case.get("shots", 0)
    ir, src = qlang.generate(rng, case["profile"])
    if "qubit" not in src[len(qlang.PRELUDE):]:
        return
    seed = (ctx.seed * 7919 + case["index"]) & 0x7fffffff
    emit = case.get("emit", True)     # without the flag the listing is only written next to the source
    args = (["--emit-qasm"] if emit else []) + (["--shots=%d" % shots] if shots else [])
    # source file names with extra dots and dotted directories: the listing is written "next to
    # the source" under the same stem
    fname = ["prog.bloch", "my.prog.v2.bloch", "dir.v1/prog.bloch", "prog.bloch", "a.b/c.d.bloch"][case["index"] % 5]
    r, events, qfile, d = core.run_bloch(binary, src, args=args, env={"BLOCH_VERIF_SEED": str(seed)},
                                         trace=True, state="final", fname=fname, keep=True)
    produced = []
    for dp, _, fs in os.walk(d):
        for f in fs:
            if f.endswith(".qasm"):
                produced.append(os.path.relpath(os.path.join(dp, f), d))
    import shutil
    shutil.rmtree(d, ignore_errors=True)
    cls = r.classify()
    files = {"prog.bloch": src, "stdout.txt": r.stdout[-8000:], "stderr.txt": r.stderr[-3000:]}
    if cls[0] != "ok":
        if cls[0] == "diag" and cls[1] == "Runtime":
            ctx.count("ended_by_runtime_error")   # no QASM is emitted for a failed run
            return
        ctx.violation("crash:%s" % (cls[1] if len(cls) > 1 else cls[0],), "run failed: %r" % (cls,), case, files)
        return
    i = r.stdout.find("OPENQASM 2.0;")
    text = r.stdout[i:] if i >= 0 else ""
    if not emit:
        if i >= 0:
            ctx.violation("qasm:printed-without-flag", "OpenQASM text printed without --emit-qasm", case, files)
        i, text = (0, qfile) if qfile else (-1, "")
        ctx.count("listings_read_from_file_only")
    ctx.note_case(src, sample=dict(program_tail=src[len(qlang.PRELUDE):][:400], qasm_head=text[:300]))
    files["emitted.qasm"] = text
    if i < 0:
        ctx.violation("qasm:missing", "--emit-qasm printed no OpenQASM text" if emit else
                      "no .qasm file was written next to the source", case, files)
        return
    want_file = os.path.splitext(fname)[0] + ".qasm"
    if sorted(produced) != [want_file]:
        ctx.violation("qasm:file-location", "source %s: expected exactly %s, the run wrote %r" %
                      (fname, want_file, sorted(produced)), case, files)
    if qfile != text:
        ctx.violation("qasm:file-vs-stdout", "the .qasm file differs from the --emit-qasm output", case,
                      dict(files, **{"file.qasm": qfile or "<missing>"}))
    try:
        nq, nc, ops = qasm2.parse(text)
    except qasm2.QasmError as e:
        ctx.violation("qasm:syntax:" + e.rule if e.rule not in ("cx-same-qubit", "operand-range") else "qasm:" + e.rule,
                      str(e), case, files)
        return
    runs = qlang.split_executions(events)
    last = runs[-1] if runs else []
    sims = [e for e in last if e["k"] == "sim"]
    allocs = [e for e in sims if e["op"] == "alloc"]
    performed = [e for e in sims if e["op"] != "alloc"]
    ctx.count("comparisons", len(performed))
    ctx.count("ops_listed", len(ops))
    nalloc = max([e["n"] for e in sims], default=0)
    if nq != nalloc or nc != nalloc:
        ctx.violation("qasm:regsize", "qreg q[%d] / creg c[%d] but %d qubits were allocated" % (nq, nc, nalloc),
                      case, files)
    # one-for-one operation list
    for k in range(max(len(ops), len(performed))):
        if k >= len(ops):
            e = performed[k]
            ctx.violation("qasm:oplist:missing", "operation #%d performed (%s q%d) is not in the listing" %
                          (k, e["op"], e["q0"]), case, files)
            return
        if k >= len(performed):
            ctx.violation("qasm:oplist:extra", "listing line #%d (%s) was not performed" % (k, ops[k][0]), case, files)
            return
        (name, qs, theta), e = ops[k], performed[k]
        want_q = (e["q0"],) if e["q1"] < 0 else (e["q0"], e["q1"])
        if name != e["op"] or qs != want_q:
            kind = "order" if sorted((o[0], o[1]) for o in ops) == sorted(
                (p["op"], (p["q0"],) if p["q1"] < 0 else (p["q0"], p["q1"])) for p in performed) else "content"
            ctx.violation("qasm:oplist:" + kind, "listing line #%d is %s%r but the program performed %s%r" %
                          (k, name, qs, e["op"], want_q), case, files)
            return
        # angles are printed with six decimals: half a unit in the last place, whatever the magnitude
        if theta is not None and abs(theta - e["theta"]) > 5.0e-7 + 1e-12 * abs(e["theta"]):
            ctx.violation("qasm:angle", "listing line #%d prints angle %r, simulated %r" % (k, theta, e["theta"]),
                          case, files)
            return
    # replay with the recorded outcomes
    outcomes = [e["out"] for e in performed if e["op"] in ("measure", "reset")]
    vec, problems = qasm2.replay(nq, ops, outcomes)
    for p in problems:
        ctx.violation("qasm:replay-outcome", p, case, files)
    fin = [e for e in last if e["k"] == "state" and e.get("final")]
    if fin:
        act = [complex(float(a), float(b)) for a, b in zip(fin[0]["re"], fin[0]["im"])]
        nrot = sum(1 for o in ops if o[0] in ("rx", "ry", "rz"))
        d = qref.phase_dist(vec, act) if len(vec) == len(act) else float("inf")
        ctx.count("states_replayed")
        # a printed angle is off by at most 5e-7, i.e. at most 2.5e-7 in the state per rotation
        if d > 3e-7 * nrot + 1e-9:
            ctx.violation("qasm:replay-state", "replaying the listing ends %.3g away from the simulator's "
                          "final state (%d rotations)" % (d, nrot), case, files)


def run(ctx):
    ctx.rule = RULE
    ctx.assumptions = ASSUMPTIONS
    binary = build.build("bloch", "asan")
    n = ctx.n(600, 5000)
    cases = []
    for i in range(n):
        prof = ["qasm", "qasm", "handles", "reset", "gates"][i % 5]
        cases.append(dict(profile=prof, index=i, shots=[0, 0, 0, 3, 1][i % 5] if i % 7 else 2,
                          emit=(i % 3 != 1)))
    core.pmap(lambda c: check_case(ctx, binary, c), cases)
    if ctx.evaluations < n // 3:
        ctx.inconclusive_because("only %d programs produced a listing" % ctx.evaluations)


def replay(ctx, data):
    binary = build.build("bloch", "asan")
    check_case(ctx, binary, data["case"])
