"""C12: running an accepted program never crashes the interpreter.

Oracle: the runner's classification of ASan+UBSan CLI runs.  Allowed outcomes for a program the
analyser accepts: exit 0, or exit 1 with the stop line followed by a 'Runtime error' diagnostic.
Everything else (signal, ASan report, crash-class UBSan report, raw C++ exception text, hang) is a
violation keyed by what was observed.  Programs rejected statically are outside the property."""
import re

from .. import build, core, qlang
from ..gen_classical import make_program

PROP = "C12"
RULE = ("union workload: (a) hostile templates x random extreme values: INT/LONG MIN/MAX arithmetic, "
        "'/' and '%' by 0 and -1, casts of huge/negative floats, indices -1/len/2^31/2^32/float, null "
        "receivers in every member position, hierarchies up to depth 40, up to 8 virtual overloads of "
        "one name, objects alive at exit in locals/statics/arrays/fields/cycles, errors raised inside "
        "constructors, destructors, field initialisers and nested calls, out-of-range literals, "
        "recursion depth <= 100, <= 12 qubits, derived-before-base order; (b) the random classical "
        "programs of C07; (c) the quantum programs of C01-C06 incl. measured-qubit misuse; (d) C08 class programs; (e) "
        "edits of a quarter of (a)-(d) that the real analyser still accepts (extreme literal in place of a "
        "literal, neighbouring operator, another identifier of the program, a widened/narrowed declared "
        "type, a statement dropped or repeated), executed with a 20 s cut-off. Distinct = "
        "distinct program texts; non-trivial = accepted by the analyser (executed).")
ASSUMPTIONS = ["edited programs (family e) that run longer than 20 s are cut off and counted, not judged: an edit "
               "can turn a loop into an endless one; likewise an edit that makes a recursion deeper than the stack "
               "(the property bounds recursion depth) is counted, not judged, and so is an edit that asks for an "
               "array larger than the memory of the machine (an environment limit, reported by the "
               "sanitizer's allocator)",
               "value-UB reports (signed overflow, float-cast overflow, shifts) are counted, not violations: "
               "C12 lists signals, memory corruption and raw exceptions",
               "recursion depth <= 100 and <= 12 qubits (the property's stated bounds); stack limit 1 GiB",
               "LeakSanitizer is off: the cycle collector leaks by design when it never runs"]

IMIN, IMAX = "(-2147483647 - 1)", "2147483647"
LMIN, LMAX = "(-9223372036854775807L - 1L)", "9223372036854775807L"


def hostile_programs(rng):
    """Yield (tag, source) pairs."""
    R = rng
    ints = [IMIN, IMAX, "-1", "0", "1", "2", "-2147483647", "65536", "46341"]
    longs = [LMIN, LMAX, "-1L", "0L", "1L", "2L", "4294967296L", "3037000500L"]
    floats = ["0.0f", "-0.0f", "1.0f", "-1.5f", "2147483648.0f", "-2147483904.0f", "9223372036854775808.0f",
              "340282346638528859811704183484516925440.0f", "0.000001f", "16777217.0f"]
    ops = ["+", "-", "*", "/", "%"]
    out = []

    def prog(tag, body, pre=""):
        out.append((tag, pre + "function main() -> void {\n" + body + "\n}\n"))

    # arithmetic edge matrix
    for _ in range(6):
        a, b, op = R.choice(ints), R.choice(ints), R.choice(ops)
        prog("int-arith:" + op, "    int a = %s;\n    int b = %s;\n    echo(a %s b);\n    echo(-a);\n    a++;\n    echo(a);" % (a, b, op))
        a, b, op = R.choice(longs), R.choice(longs), R.choice(ops)
        prog("long-arith:" + op, "    long a = %s;\n    long b = %s;\n    echo(a %s b);\n    echo(-a);\n    a--;\n    echo(a);" % (a, b, op))
        a, b, op = R.choice(longs), R.choice(ints), R.choice(ops)
        prog("mixed-arith:" + op, "    long a = %s;\n    int b = %s;\n    echo(a %s b);\n    echo(b %s a);" % (a, b, op, op))
        f, g, op = R.choice(floats), R.choice(floats), R.choice(["+", "-", "*", "/"])
        prog("float-arith:" + op, "    float a = %s;\n    float b = %s;\n    echo(a %s b);\n    echo((int)(a %s b));\n    echo((long)a);\n    echo((bit)b);" % (f, g, op, op))
    prog("long-min-mod", "    long m = %s;\n    echo(m %% -1L);" % LMIN)
    prog("long-min-div", "    long m = %s;\n    echo(m / -1L);\n    echo(m * -1L);" % LMIN)
    prog("int-min-mod", "    int m = %s;\n    echo(m %% -1);\n    echo(m / -1);" % IMIN)
    prog("int-min-mod-var", "    int m = %s;\n    int d = 0 - 1;\n    echo(m %% d);\n    long l = %s;\n    long e = 0L - 1L;\n    echo(l %% e);" % (IMIN, LMIN))
    # casts
    for f in floats:
        prog("cast:" + f[:6], "    float f = %s;\n    echo((int)f);\n    echo((long)f);\n    echo((bit)f);\n    int[] a = {1, 2};\n    echo(a[(int)(f - f)]);" % f)
    # literals outside the machine range
    prog("lit-int-huge", "    int a = 99999999999;\n    echo(a);")
    prog("lit-int-huge-expr", "    echo(1 + 99999999999999999999);")
    prog("lit-long-huge", "    long a = 99999999999999999999999L;\n    echo(a);")
    prog("lit-float-huge", "    float f = 9" + "9" * 50 + ".0f;\n    echo(f);")
    prog("lit-float-tiny", "    float f = 0." + "0" * 60 + "1f;\n    echo(f);")
    prog("lit-array-size-huge", "    int[99999999999] a;\n    echo(1);")
    prog("lit-index-huge", "    int[] a = {1};\n    echo(a[99999999999]);")
    prog("lit-bit", "    bit b = 1b;\n    echo(b);")
    # indices
    for ix in ["n - 2", "n", "n + 1", "2147483647", "4294967296L", "4294967297L", "(0 - 2147483647) - 1",
               "1.5f", "0.0f - 1.0f", "1b", "(long)n", "3000000000L"]:
        prog("index:" + ix[:8], "    int n = 1;\n    int[] a = {5};\n    float[] f = {1.5f};\n    string[] s = {\"x\"};\n"
             "    echo(a[%s]);\n    echo(f[%s]);\n    echo(s[%s]);" % (ix, ix, ix))
        prog("index-assign:" + ix[:8], "    int n = 1;\n    int[] a = {5};\n    a[%s] = 7;\n    echo(a[0]);" % ix)
    prog("array-neg-size", "    final int n = 0 - 3;\n    int[n] a;\n    echo(1);")
    prog("array-zero", "    int[0] a;\n    echo(a);\n    echo(a[0]);")
    prog("bit-array-len", "    bit[] a = {1b, 0b};\n    bit[] b = {1b};\n    echo(a & b);")
    # strings
    prog("string-grow", "    string s = \"ab\";\n    for (int i = 0; i < 16; i = i + 1) {\n        s = s + s;\n    }\n    echo(1);")
    # recursion (bounded)
    prog("recursion-100", "    echo(down(100));", "function down(int n) -> int {\n    if (n <= 0) {\n        return 0;\n    }\n    return 1 + down(n - 1);\n}\n")
    # null receivers
    cls = ("class N {\n    public int v;\n    public N next;\n    public int[] arr;\n    public constructor() -> N = default;\n"
           "    public function m() -> int {\n        return this.v;\n    }\n    public static function s() -> int {\n        return 1;\n    }\n}\n")
    for tag, body in [
        ("call", "    N x = null;\n    echo(x.m());"), ("field", "    N x = null;\n    echo(x.v);"),
        ("assign", "    N x = null;\n    x.v = 3;"), ("chain", "    N x = new N();\n    echo(x.next.next.v);"),
        ("chain-call", "    N x = new N();\n    echo(x.next.m());"), ("destroy", "    N x = null;\n    destroy x;\n    echo(1);"),
        ("destroy-twice", "    N x = new N();\n    destroy x;\n    destroy x;\n    echo(1);"),
        ("use-after-destroy", "    N x = new N();\n    N y = x;\n    destroy x;\n    echo(y.v);\n    echo(x.v);"),
        ("arr-field", "    N x = new N();\n    echo(x.arr[0]);"), ("null-arg", "    echo(take(null));"),
        ("self-cycle", "    N x = new N();\n    x.next = x;\n    destroy x;\n    echo(1);"),
        ("static-on-null", "    N x = null;\n    echo(N.s());"),
        ("destroy-field", "    N x = new N();\n    x.next = new N();\n    destroy x.next;\n    echo(1);"),
    ]:
        prog("null:" + tag, body, cls + "function take(N n) -> int {\n    return n.v;\n}\n")
    # deep hierarchy with virtual dispatch
    depth = R.choice([5, 20, 40])
    src = "class C0 {\n    public constructor() -> C0 = default;\n    public virtual function f() -> int {\n        return 0;\n    }\n}\n"
    for i in range(1, depth + 1):
        src += ("class C%d extends C%d {\n    public constructor() -> C%d {\n        super();\n        return this;\n    }\n"
                "    public virtual override function f() -> int {\n        return %d;\n    }\n}\n" % (i, i - 1, i, i))
    prog("deep-hierarchy:%d" % depth, "    C0 x = new C%d();\n    echo(x.f());\n    C%d y = new C%d();\n    echo(y.f());" % (depth, depth // 2, depth), src)
    # many virtual overloads of one name
    k = R.choice([2, 3, 5, 8])
    types = ["int", "float", "string", "bit", "long", "boolean", "int[]", "float[]"][:k]
    vals = {"int": "1", "float": "1.5f", "string": "\"s\"", "bit": "1b", "long": "2L", "boolean": "true"}
    base = "class B {\n    public constructor() -> B = default;\n"
    der = "class D extends B {\n    public constructor() -> D {\n        super();\n        return this;\n    }\n"
    for i, t in enumerate(types):
        base += "    public virtual function g(%s a) -> int {\n        return %d;\n    }\n" % (t, i)
        der += "    public override function g(%s a) -> int {\n        return %d;\n    }\n" % (t, 100 + i)
    base += "}\n"
    der += "}\n"
    calls = "".join("    echo(b.g(%s));\n" % vals[t] for t in types if t in vals)
    prog("virtual-overloads:%d" % k, "    B b = new D();\n" + calls + "    B c = new B();\n" + calls.replace("b.g", "c.g"), base + der)
    # objects alive at exit / errors in special members
    life = ("class A {\n    public static A keep;\n    public static int count = 0;\n    public int v;\n    public A other;\n"
            "    public constructor(int x) -> A {\n        this.v = (int)(10 / x);\n        A.count = A.count + 1;\n        return this;\n    }\n"
            "    public destructor() -> void {\n        echo(\"~A\" + this.v);\n        int z = 1 %% this.v;\n    }\n"
            "    public function boom() -> int {\n        int[] q = {1};\n        return q[this.v];\n    }\n}\n"
            "class F {\n    public int w = (int)(5 / %s);\n    public constructor() -> F = default;\n}\n")
    for tag, body, fz in [
        ("static-holds", "    A.keep = new A(2);\n    echo(A.count);", "1"),
        ("local-at-exit", "    A a = new A(1);\n    A b = new A(2);\n    echo(a.v + b.v);", "1"),
        ("ctor-throws", "    A a = new A(0);\n    echo(1);", "1"),
        ("ctor-throws-after-others", "    A a = new A(1);\n    A b = new A(2);\n    A c = new A(0);", "1"),
        ("dtor-throws", "    A a = new A(10);\n    a.v = 0;\n    destroy a;\n    echo(2);", "1"),
        ("dtor-throws-at-exit", "    A a = new A(10);\n    a.v = 0;", "1"),
        ("method-throws", "    A a = new A(1);\n    echo(a.boom());", "1"),
        ("field-init-throws", "    F f = new F();\n    echo(f.w);", "0"),
        ("cycle-at-exit", "    A a = new A(1);\n    A b = new A(2);\n    a.other = b;\n    b.other = a;", "1"),
        ("cycle-then-error", "    A a = new A(1);\n    A b = new A(2);\n    a.other = b;\n    b.other = a;\n    echo(a.boom());", "1"),
        ("many-objects", "    for (int i = 1; i < 60; i = i + 1) {\n        A t = new A(i);\n        t.other = new A(i);\n    }\n    echo(A.count);", "1"),
        ("error-in-arg", "    A a = new A(1);\n    echo(use(new A(2), a.boom()));", "1"),
        ("return-object", "    A a = mk();\n    echo(a.v);\n    echo(mk().v);", "1"),
    ]:
        prog("life:" + tag, body, (life % fz) + "function use(A x, int y) -> int {\n    return x.v + y;\n}\n"
             "function mk() -> A {\n    return new A(5);\n}\n")
    # object arrays / generics
    prog("generic-box", "    Box<int> b = new Box<int>(3);\n    Box<Box<int>> bb = new Box<Box<int>>(b);\n    echo(bb.v.v);\n    Box<string> s = new Box<>(\"x\");\n    echo(s.v);",
         "class Box<T> {\n    public T v;\n    public constructor(T v) -> Box<T> {\n        this.v = v;\n        return this;\n    }\n}\n")
    prog("generic-static-self-plain", "    GBox<float> b = new GBox<float>(1.5f);\n    echo(b.v);\n    GBox<int> c = new GBox<int>(7);\n    echo(c.v);",
         "class GBox<T> {\n    public static GBox<int> origin = new GBox<int>(0);\n    public T v;\n    public constructor(T v) -> GBox<T> {\n        this.v = v;\n        return this;\n    }\n}\n")
    prog("generic-static-chain", "    GA<int> a = new GA<int>(1);\n    echo(a.v);",
         "class GA<T> {\n    public static GB<T> peer = new GB<T>(2);\n    public int v;\n    public constructor(int v) -> GA<T> {\n        this.v = v;\n        return this;\n    }\n}\n"
         "class GB<T> {\n    public static GA<T> back = null;\n    public int w;\n    public constructor(int w) -> GB<T> {\n        this.w = w;\n        return this;\n    }\n}\n")
    # declaration order
    prog("derived-before-base", "    D d = new D();\n    echo(d.f());",
         "class D extends B {\n    public constructor() -> D {\n        super();\n        return this;\n    }\n    public function f() -> int {\n        return 2;\n    }\n}\n"
         "class B {\n    public constructor() -> B = default;\n}\n")
    for qual in ("", "geometry.", "a.b."):
        for nf in (1, 3):
            fields = "".join("    public int f%d = %d;\n" % (i, i + 4) for i in range(nf))
            prog("derived-before-base-fields:%s%d" % (qual, nf), "    D d = new D();\n    echo(d.f0 + d.own);\n    D e = new D();\n    e.f0 = 9;\n    echo(d.f0 + e.f0);",
                 "class D extends %sB {\n    public int own = 1;\n    public constructor() -> D {\n        super();\n        return this;\n    }\n}\n"
                 "class B {\n%s    public constructor() -> B = default;\n}\n" % (qual, fields))
    prog("derived-before-generic-before-base", "    D d = new D();\n    echo(d.y);\n    echo(d.own);",
         "class D extends G<int> {\n    public int own = 1;\n    public constructor() -> D {\n        super();\n        return this;\n    }\n}\n"
         "class G<T> extends B {\n    public T t;\n    public constructor() -> G<T> {\n        super();\n        return this;\n    }\n}\n"
         "class B {\n    public int x = 5;\n    public int y = 7;\n    public constructor() -> B {\n        return this;\n    }\n}\n")
    # user declarations that reuse the name of a built-in (normally rejected; if accepted, the call must still
    # be dispatched consistently by analyser and evaluator)
    for nm in ("h", "x", "cx", "rz", "measure", "echo", "reset"):
        if nm in ("measure", "echo", "reset"):
            continue    # keywords cannot even be written as a function name: the parser's business (C13)
        prog("function-named-like-a-gate:%s:0" % nm, "    echo(%s());" % nm, "function %s() -> int {\n    return 1;\n}\n" % nm)
        prog("function-named-like-a-gate:%s:int" % nm, "    echo(%s(3));" % nm, "function %s(int k) -> int {\n    return k;\n}\n" % nm)
        prog("method-named-like-a-gate:%s" % nm, "    GN g = new GN();\n    echo(g.%s());\n    qubit q;\n    h(q);\n    echo(1);" % nm,
             "class GN {\n    public constructor() -> GN = default;\n    public function %s() -> int {\n        return 7;\n    }\n}\n" % nm)
    # static members of a generic class reached through the bare template name, with 0..2 arguments
    for nparams, tps in ((1, "T"), (2, "A, B"), (3, "A, B, C")):
        fld = "    public int n = 1;\n"
        prog("generic-static-through-bare-name:%d" % nparams,
             "    echo(GS.answer());\n    echo(GS.twice(4));\n    echo(GS.pair(1, 2));\n    GS.count = GS.count + 1;\n    echo(GS.count);",
             "class GS<%s> {\n%s    public static int count = 5;\n    public constructor() -> GS<%s> = default;\n"
             "    public static function answer() -> int {\n        return 42;\n    }\n"
             "    public static function twice(int k) -> int {\n        return k + k;\n    }\n"
             "    public static function pair(int a, int b) -> int {\n        return a * 10 + b;\n    }\n}\n" % (tps, fld, tps))
    # a destructor that lets 'this' escape (into a static, into another object, through a call that stores it)
    esc = ("class Keep {\n    public static Keep last;\n    public Keep other;\n    public int v = 3;\n"
           "    public constructor() -> Keep = default;\n    public static function stash(Keep k) -> void {\n        last = k;\n    }\n"
           "    public destructor() -> void {\n        %s\n    }\n}\n")
    for tag, stmt in (("static", "Keep.last = this;"), ("call", "Keep.stash(this);"), ("local-only", "Keep tmp = this; int w = tmp.v;"),
                      ("field-of-other", "if (Keep.last != null) { Keep.last.other = this; }")):
        prog("this-escapes-destructor:" + tag, "    Keep anchor = new Keep();\n    Keep.last = anchor;\n    Keep k = new Keep();\n    destroy k;\n"
             "    echo(1);\n    if (Keep.last != null) {\n        echo(Keep.last.v);\n    }\n    if (anchor.other != null) {\n        echo(anchor.other.v);\n    }",
             esc % stmt)
    # heaps the collector has to walk: reachable cycles, long chains and object arrays alive while
    # allocation pressure (> 16 allocations) triggers collections
    ring = ("class R {\n    public R next;\n    public R prev;\n    public int v;\n    public constructor(int v) -> R {\n        this.v = v;\n        return this;\n    }\n}\n")
    prog("live-cycle-under-pressure", "    R a = new R(1);\n    R b = new R(2);\n    a.next = b;\n    b.next = a;\n    a.prev = b;\n    b.prev = a;\n"
         "    int s = 0;\n    for (int i = 0; i < 40; i = i + 1) {\n        R t = new R(i);\n        t.next = t;\n        s = s + t.v;\n    }\n    echo(s + a.next.v + b.prev.v);", ring)
    prog("live-self-cycle-destroy", "    R a = new R(1);\n    a.next = a;\n    R g = new R(2);\n    destroy g;\n    for (int i = 0; i < 20; i = i + 1) {\n        R t = new R(i);\n    }\n    echo(a.next.next.v);", ring)
    prog("long-chain-under-pressure", "    R head = new R(0);\n    R cur = head;\n    for (int i = 1; i < 300; i = i + 1) {\n        cur.next = new R(i);\n        cur.next.prev = cur;\n        cur = cur.next;\n    }\n    echo(cur.v + head.next.v);", ring)
    # qubits
    prog("qubits-12", "    qubit[12] r;\n    for (int i = 0; i < 12; i = i + 1) {\n        h(r[i]);\n    }\n    cx(r[0], r[11]);\n    measure r;\n    echo(1);")
    prog("qubit-index-oob", "    qubit[2] r;\n    int n = 2;\n    h(r[n]);")
    prog("qubit-same-cx", "    qubit q;\n    cx(q, q);\n    echo(1);")
    prog("qubit-reset-measured", "    qubit q;\n    bit b = measure q;\n    reset q;\n    h(q);\n    bit c = measure q;\n    echo(b);")
    return out


INT_EXTREMES = ["0", "1", "2", "31", "32", "63", "64", "2147483647", "2147483646", "(-1)", "(-2147483647 - 1)", "65536"]
OP_CLASSES = [["+", "-", "*", "/", "%"], ["<", ">", "<=", ">=", "==", "!="], ["&&", "||"], ["&", "|", "^"],
              ["++", "--"], ["+=", "-=", "*=", "/="]]
TYPE_SWAPS = {"int": ["long", "float", "bit"], "long": ["int"], "float": ["int", "long"], "bit": ["int", "boolean"],
              "boolean": ["bit"]}
KEYWORDS = set("""int long float bit boolean string char qubit void class function return if else for while new
    null this super final static public private protected virtual override abstract extends import package
    constructor destructor destroy default measure reset echo true false""".split())


def mutate_accepted(src, spans, rng, count):
    """Small edits of an accepted program that tend to stay accepted but steer execution somewhere the
    generator never goes: extreme literals, neighbouring operators, another variable of the program in
    place of this one, a widened/narrowed declared type, a dropped or repeated statement."""
    toks = [(a, b, src[a:b]) for a, b in spans]
    idents = sorted({t for _, _, t in toks if re.match(r"^[A-Za-z_]\w*$", t) and t not in KEYWORDS})
    out = []
    tries = 0
    while len(out) < count and tries < count * 6 and toks:
        tries += 1
        k = rng.randrange(len(toks))
        a, b, t = toks[k]
        kind = None
        rep = None
        if re.match(r"^\d+$", t):
            rep, kind = rng.choice(INT_EXTREMES), "lit"
        elif re.match(r"^\d+L$", t):
            rep, kind = rng.choice(["0L", "9223372036854775807L", "(-9223372036854775807L - 1L)", "(-1L)", "4294967296L"]), "lit"
        elif re.match(r"^\d*\.\d+f?$", t):
            rep, kind = rng.choice(["0.0f", "-0.0f", "3.4e38f", "1.0e-30f", "1.0e30f"]), "lit"
        elif t in TYPE_SWAPS and rng.random() < 0.5:
            rep, kind = rng.choice(TYPE_SWAPS[t]), "type"
        elif t in idents and len(idents) > 1 and rng.random() < 0.5:
            rep, kind = rng.choice([i for i in idents if i != t]), "ident"
        elif t == ";" and rng.random() < 0.4:
            # drop or repeat the statement that ends here (back to the previous ; { or })
            j = k - 1
            while j >= 0 and toks[j][2] not in (";", "{", "}"):
                j -= 1
            if j >= 0 and k - j > 1:
                sa = toks[j + 1][0]
                if rng.random() < 0.5:
                    out.append(("drop@%d" % k, src[:sa] + src[b:]))
                else:
                    out.append(("again@%d" % k, src[:b] + " " + src[sa:b] + src[b:]))
            continue
        else:
            for cls in OP_CLASSES:
                if t in cls:
                    rep, kind = rng.choice([o for o in cls if o != t]), "op"
        if rep is None or rep == t:
            continue
        out.append(("%s@%d:%s" % (kind, k, rep), src[:a] + rep + src[b:]))
    return out


def mutated_jobs(ctx, seeds, per_seed):
    """seeds: list of (tag, src, env).  Returns jobs for the edits the real analyser still accepts."""
    from .. import front
    from .c13 import token_spans
    res = front.run_batch("tokens", [s for _, s, _ in seeds])
    cands = []
    for (tag, src, env), r in zip(seeds, res):
        toks = [t for t in r["lines"] if isinstance(t, dict) and "t" in t]
        spans = token_spans(src, toks)
        for name, text in mutate_accepted(src, spans, ctx.rng("mut/" + tag), per_seed):
            cands.append((tag + ":" + name, text, env))
    verdicts = front.run_batch("analyse", [c[1] for c in cands])
    jobs = []
    for (tag, text, env), v in zip(cands, verdicts):
        ctx.count("edits_tried")
        first = next((l for l in v["lines"] if isinstance(l, dict) and "accepted" in l), None)
        if v["crash"] is None and first is not None and first["accepted"]:
            ctx.count("edits_still_accepted")
            jobs.append(("edited:" + tag, text, dict(kind="edited", tag=tag), env))
    return jobs


def classify_and_report(ctx, tag, src, r, case):
    cls = r.classify()
    files = {"prog.bloch": src, "stderr.txt": r.stderr[-12000:], "stdout.txt": r.stdout[-2000:]}
    for s in r.san:
        if not s["fatal"]:
            ctx.count("value_ub_reports")
    if cls[0] == "ok":
        ctx.count("exit0")
        return True
    if cls[0] == "diag":
        if cls[1] == "Runtime":
            ctx.count("runtime_error")
            d = r.diag()
            if d[4] != 1:
                ctx.violation("diag:extra-lines", "more than one line after the stop line (%s)" % tag,
                              case, files)
            return True
        ctx.count("rejected_statically")
        return False
    if cls[0] == "sanitizer":
        key = cls[1]
        if case.get("kind") == "edited" and key.startswith("asan:stack-overflow"):
            ctx.count("edited_programs_recursing_past_the_bound")   # the property bounds recursion depth
            return False
        if case.get("kind") == "edited" and key.startswith("asan:allocator") and "out of memory" in r.stderr:
            ctx.count("edited_programs_asking_for_more_memory_than_there_is")   # e.g. string[2147483647] v;
            return False
    elif cls[0] == "signal":
        key = "signal:%d:%s" % (cls[1], "<-".join(core._bloch_frames(r.stderr)) or "?")
    elif cls[0] == "raw":
        key = "raw:" + re.sub(r"[^A-Za-z_:]", "", cls[1])[:40]
    elif cls[0] == "timeout":
        if case.get("kind") == "edited":
            ctx.count("edited_programs_cut_off")     # an edit may legitimately loop for ever
            return False
        ctx.inconclusive_because("%s timed out twice" % tag)
        return True
    else:
        key = "exit:%s" % (cls[1] if len(cls) > 1 else cls[0],)
    ctx.violation(key, "%s: %r" % (tag, cls), case, files)
    return True


def run(ctx):
    ctx.rule = RULE
    ctx.assumptions = ASSUMPTIONS
    binary = build.build("bloch", "asan")
    jobs = []
    for rep in range(ctx.n(4, 30)):
        for tag, src in hostile_programs(ctx.rng("hostile%d" % rep)):
            jobs.append(("hostile:" + tag, src, dict(kind="hostile", rep=rep, tag=tag), {}))
    for i in range(ctx.n(700, 6000)):
        made = make_program(ctx.rng("c07-%d" % i))
        if made:
            jobs.append(("classical:%d" % i, made[1], dict(kind="classical", index=i), {}))
    for i in range(ctx.n(500, 4000)):
        prof = ["flags", "qasm", "handles", "tracked", "measure"][i % 5]
        ir, src = qlang.generate(ctx.rng("q-%d" % i), prof)
        case = dict(kind="quantum", index=i, profile=prof)
        if prof in ("tracked", "measure") and i % 2:
            case["shots"] = 4      # the CLI's multi-shot loop and its aggregate table are code an accepted program runs
        jobs.append(("quantum:%s:%d" % (prof, i), src, case, {"BLOCH_VERIF_SEED": str(ctx.seed * 7 + i)}))
    try:
        from . import c08
        for i in range(ctx.n(300, 3000)):
            src = c08.program_source(ctx.rng("cls-%d" % i))
            if src:
                jobs.append(("classes:%d" % i, src, dict(kind="classes", index=i), {}))
    except ImportError:
        pass

    seeds = []
    stride = {"hostile": 1, "classical": 4, "quantum": 4, "classes": 4}
    seen = {}
    for tag, src, case, env in jobs:
        k = case["kind"]
        seen[k] = seen.get(k, 0) + 1
        if seen[k] % stride[k] == 0:
            seeds.append((tag, src, env))
    jobs += mutated_jobs(ctx, seeds, ctx.n(6, 12))

    # a third of the programs also run with a collection forced at every statement boundary: the
    # collector's own walks (mark, sweep, audit) are code an accepted program can crash in
    extra = []
    for n, (tag, src, case, env) in enumerate(jobs):
        if n % 3 == 0 and case["kind"] != "edited":
            extra.append((tag + "+gc-all", src, dict(case, gc="all"), dict(env, BLOCH_VERIF_GC="all+natural")))
    jobs += extra

    def one(job):
        tag, src, case, env = job
        if case["kind"] == "edited":
            r, _, _, _ = core.run_bloch(binary, src, env=env, timeout=20, cpu_s=20, retry_timeout=False)
        else:
            args = ["--shots=%d" % case["shots"]] if case.get("shots") else []
            r, _, _, _ = core.run_bloch(binary, src, args=args, env=env, timeout=60)
        return job, r

    for (tag, src, case, env), r in core.pmap(one, jobs):
        executed = classify_and_report(ctx, tag, src, r, case)
        ctx.note_case(src, nontrivial=executed, sample=dict(tag=tag, head=src[-300:]))
        ctx.count("programs_" + tag.split(":")[0])


def replay(ctx, data):
    binary = build.build("bloch", "asan")
    import os
    p = os.path.join(data.get("_dir", ""), "prog.bloch")
    case = data["case"]
    src = None
    if case["kind"] == "hostile":
        for tag, s in hostile_programs(ctx.rng("hostile%d" % case["rep"])):
            if tag == case["tag"]:
                src = s
    elif case["kind"] == "classical":
        src = make_program(ctx.rng("c07-%d" % case["index"]))[1]
    elif case["kind"] == "quantum":
        src = qlang.generate(ctx.rng("q-%d" % case["index"]), case["profile"])[1]
    if src is None and os.path.exists(p):
        with open(p) as f:
            src = f.read()
    r, _, _, _ = core.run_bloch(binary, src, timeout=60)
    print(src[-1500:])
    print(r.classify())
    print(r.stderr[-3000:])
    classify_and_report(ctx, "replay", src, r, case)
