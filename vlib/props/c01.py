"""C01: see DESIGN.md section 3. In-process monitor (harness/simmon.cpp) + language path."""
from .. import simmon_driver, qlang

PROP = "C01"
RULE = ("exhaustive block: every gate x every target (every ordered control/target pair) x every "
        "computational basis state x 12 angles for n=1..N (N=7 quick, 10 thorough), each application "
        "compared with the defining unitary (x) identity up to one global phase (1e-9); random "
        "entangling circuits (depth 60, n<=8) checked after every gate; generated Bloch programs "
        "reaching the built-ins through variables, array elements (constant/computed index), "
        "function/@quantum/method parameters and object fields, checked op-by-op against the trace. "
        "A case is one (gate, geometry, angle, basis state) application, one circuit or one "
        "program; distinct = distinct case descriptors / program texts; all are non-trivial "
        "(every case applies at least one gate under test).")
ASSUMPTIONS = ["amplitudes are read through the BLOCH_VERIF accessor (read-only)",
               "tolerance 1e-9 per application; angles sampled (12 fixed + random), n <= 10",
               "reference simulator: harness/simmon.cpp (C++) and vlib/qref.py (Python), both "
               "written from the gate definitions in scatter form"]


def run(ctx):
    ctx.rule = RULE
    ctx.assumptions = ASSUMPTIONS
    simmon_driver.run_simmon(ctx, PROP)
    qlang.run_language_path(ctx, PROP)


def replay(ctx, data):
    case = data["case"]
    if "simmon_case" in case:
        simmon_driver.replay_simmon(ctx, PROP, case)
    else:
        qlang.replay(ctx, PROP, case)
