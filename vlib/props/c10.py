"""C10: acceptance and behaviour do not depend on the order of top-level declarations.

Metamorphic check: a generated program (classes + functions, or functions only) is run in its
generation order and in permutations of its top-level declarations (all permutations up to 5
declarations, otherwise the reversal, derived-before-base / callee-after-caller rotations and
random shuffles).  Verdict (accepted / diagnostic category), stdout and exit status must agree."""
import itertools

from .. import build, core
from ..gen_classes import Gen as ClassGen
from ..gen_classical import make_program, render

PROP = "C10"
RULE = ("base programs: (0) the whole-program rule templates of C16 (violating and conforming) plus hand-written "
        "order-sensitive shapes (abstract method passed through a middle class, qualified base name, override "
        "chains, generic bounds, static initialisers that read other classes); (a) class programs of C08 (hierarchies, overload holder, generic Box, helper "
        "functions called from field initialisers, show functions taking class parameters, main) "
        "whose top-level declarations are split into units; (b) classical multi-function programs "
        "of C07 (call graphs, recursion). Permutations: exhaustive when the program has <= 5 "
        "declarations, else full reversal, every rotation and up to 20 random shuffles. Distinct = "
        "distinct (program, permutation) pairs; non-trivial = the permutation moves a declaration "
        "before one it refers to (class before its base, caller before callee).")
ASSUMPTIONS = ["collections masked (BLOCH_VERIF_GC=none)",
               "the reference outcome is the generation order (dependencies first), which the docs' "
               "own examples use"]


def outcome(r):
    c = r.classify()
    if c[0] == "ok":
        # the multi-shot summary prints the wall-clock time of the run
        return ("ok", "\n".join(l for l in r.stdout.split("\n") if not l.startswith("Elapsed:")))
    if c[0] == "diag":
        return ("diag", c[1], c[4][:60])
    return tuple(c[:2])


def perms(n, rng, cap):
    idx = list(range(n))
    if n <= 5:
        return [list(p) for p in itertools.permutations(idx)][1:]
    out = [idx[::-1]]
    for k in range(1, n):
        out.append(idx[k:] + idx[:k])
    seen = {tuple(x) for x in out}
    while len(out) < cap:
        p = idx[:]
        rng.shuffle(p)
        if tuple(p) not in seen and p != idx:
            seen.add(tuple(p))
            out.append(p)
    return out[:cap]


def split_top_level(src):
    """Split a source text into its top-level declarations (class / function blocks)."""
    units, depth, start, i, n = [], 0, 0, 0, len(src)
    in_str = None
    while i < n:
        ch = src[i]
        if in_str:
            if ch == in_str:
                in_str = None
        elif ch in "\"'":
            in_str = ch
        elif ch == "/" and src[i:i + 2] == "//":
            while i < n and src[i] != "\n":
                i += 1
            continue
        elif ch == "{":
            depth += 1
        elif ch == "}":
            depth -= 1
            if depth == 0:
                units.append(src[start:i + 1].strip("\n") + "\n")
                start = i + 1
        i += 1
    tail = src[start:].strip()
    if tail:
        units.append(tail + "\n")
    return units


def rule_programs(ctx):
    """Programs from the C16 matrix (violating and conforming): their verdict must not depend on
    the declaration order either."""
    from . import c16
    out = []
    for rid, bad, good in c16.PROGRAM_RULES:
        if bad is None:
            continue
        for role, text in (("violating", bad), ("twin", good)):
            out.append(("rule:%s:%s" % (rid, role), text + "\nfunction main() -> void { }\n"))
    extra = [
        ("abstract-chain", "class Shape { public constructor() -> Shape = default; public virtual function area() -> int; }\n"
                           "class Poly extends Shape { public int sides = 3; public constructor() -> Poly { super(); return this; } }\n"
                           "class Blob extends Poly { public int w = 2; public constructor() -> Blob { super(); return this; } }\n"
                           "function main() -> void { Blob b = new Blob(); echo(b.w); }\n"),
        ("abstract-chain-ok", "class Shape { public constructor() -> Shape = default; public virtual function area() -> int; }\n"
                              "class Poly extends Shape { public int sides = 3; public constructor() -> Poly { super(); return this; } }\n"
                              "class Blob extends Poly { public int w = 2; public constructor() -> Blob { super(); return this; } public override function area() -> int { return this.sides * this.w; } }\n"
                              "function main() -> void { Shape b = new Blob(); echo(b.area()); }\n"),
        ("qualified-base", "class Derived extends shapes.Base { public int d = 3; public constructor() -> Derived { super(); return this; } }\n"
                           "class Base { public int a = 1; public constructor() -> Base = default; }\n"
                           "function main() -> void { Derived x = new Derived(); echo(x.a); echo(x.d); x.a = 7; echo(x.d); }\n"),
        ("override-chain", "class A { public constructor() -> A = default; public virtual function f() -> int { return 1; } }\n"
                           "class B extends A { public constructor() -> B { super(); return this; } public virtual override function f() -> int { return 2; } }\n"
                           "class C extends B { public constructor() -> C { super(); return this; } public override function f() -> int { return super.f() + 10; } }\n"
                           "function show(A a) -> int { return a.f(); }\n"
                           "function main() -> void { echo(show(new C())); echo(show(new B())); }\n"),
        ("generic-bound-order", "class Zoo<T extends Animal> { public T pet; public constructor(T p) -> Zoo<T> { this.pet = p; return this; } }\n"
                                "class Dog extends Animal { public constructor() -> Dog { super(); return this; } }\n"
                                "class Animal { public int legs = 4; public constructor() -> Animal = default; }\n"
                                "function main() -> void { Zoo<Dog> z = new Zoo<Dog>(new Dog()); echo(z.pet.legs); }\n"),
        ("static-init-order", "class Cfg { public static int base = 5; public static int twice = Cfg.base * 2; public constructor() -> Cfg = default; }\n"
                              "class Use { public static int v = Cfg.twice + 1; public constructor() -> Use = default; }\n"
                              "function main() -> void { echo(Use.v); echo(Cfg.twice); }\n"),
        ("static-inherited-bare", "class Base { public static int seed = 41; public constructor() -> Base = default; }\n"
                                  "class Derived extends Base { public static int next = seed + 1; public constructor() -> Derived { super(); return this; } }\n"
                                  "function main() -> void { echo(Derived.next); echo(Base.seed); }\n"),
        ("static-inherited-qualified", "class Base { public static int seed = 41; public constructor() -> Base = default; }\n"
                                       "class Mid extends Base { public static int m = Base.seed + 1; public constructor() -> Mid { super(); return this; } }\n"
                                       "class Leaf extends Mid { public static int l = m + seed; public constructor() -> Leaf { super(); return this; } }\n"
                                       "function main() -> void { echo(Leaf.l); echo(Mid.m); }\n"),
        ("static-init-inside-a-call", "class Report { public static int total = Report.price(1000); public constructor() -> Report = default;\n"
                                      "    public static function price(int rate) -> int { int bonus = 7; return rate + Tariff.surcharge + bonus; } }\n"
                                      "class Tariff { public static int rate = 4; public static int bonus = 1; public static int surcharge = rate + bonus; public constructor() -> Tariff = default; }\n"
                                      "function main() -> void { echo(Report.total); echo(Tariff.surcharge); }\n"),
        ("static-init-inside-a-method", "class Meter { public int rate = 9; public constructor() -> Meter = default;\n"
                                        "    public function read(int scale) -> int { int rate2 = scale; return this.rate * Conf.factor + rate2; } }\n"
                                        "class Conf { public static int scale = 3; public static int factor = scale + 1; public constructor() -> Conf = default; }\n"
                                        "class Boot { public static int first = new Meter().read(50); public constructor() -> Boot = default; }\n"
                                        "function main() -> void { echo(Boot.first); echo(Conf.factor); }\n"),
        ("shots-on-main-among-functions", "function before() -> int { return 1; }\n"
                                          "@shots(3)\nfunction main() -> void { @tracked qubit q; x(q); measure q; echo(before() + after()); }\n"
                                          "function after() -> int { return 2; }\n"),
        ("shots-on-main-with-class", "class K { public constructor() -> K = default; public function v() -> int { return 5; } }\n"
                                     "@shots(2)\nfunction main() -> void { @tracked qubit q; measure q; echo(helper()); }\n"
                                     "function helper() -> int { return new K().v(); }\n"),
        ("generic-static-through-later-class", "class Leaf extends Gen<int> { public constructor() -> Leaf { super(); return this; } }\n"
                                               "class Gen<T> { public static int base = Util.seven(); public T v; public constructor() -> Gen<T> = default; "
                                               "public function get() -> int { return base; } }\n"
                                               "class Util { public constructor() -> Util = default; public static function seven() -> int { return 7; } }\n"
                                               "function main() -> void { Leaf l = new Leaf(); echo(l.get()); }\n"),
        ("generic-middle-base", "class D extends G<int> { public constructor() -> D { super(); return this; } }\n"
                                "class G<T> extends B { public T t; public constructor() -> G<T> { super(); return this; } }\n"
                                "class B { public int x = 5; public int y = 7; public constructor() -> B { return this; } }\n"
                                "function main() -> void { D d = new D(); echo(d.y); echo(d.x); }\n"),
        ("generic-two-middle-bases", "class D extends G<int> { public int own = 1; public constructor() -> D { super(); return this; } }\n"
                                     "class G<T> extends H<T> { public T t; public constructor() -> G<T> { super(); return this; } }\n"
                                     "class H<U> extends B { public int h = 9; public constructor() -> H<U> { super(); return this; } }\n"
                                     "class B { public int x = 5; public int y = 7; public constructor() -> B { return this; } }\n"
                                     "function main() -> void { D d = new D(); echo(d.y); echo(d.h); echo(d.own); }\n"),
        ("type-parameter-named-like-a-class", "class Item { public int id; public constructor(int id) -> Item { this.id = id; return this; } }\n"
                                              "class Crate<Item> { public Item held; public constructor(Item x) -> Crate<Item> { this.held = x; return this; } }\n"
                                              "class Factory { public constructor() -> Factory = default; public function make(int k) -> Item { return new Item(k); } }\n"
                                              "function main() -> void { Factory f = new Factory(); Item it = f.make(7); echo(it.id); Crate<string> c = new Crate<string>(\"label\"); echo(c.held); }\n"),
    ]
    return out + extra


def run(ctx):
    ctx.rule = RULE
    ctx.assumptions = ASSUMPTIONS
    binary = build.build("bloch", "asan")
    jobs = []
    for k, (tag, text) in enumerate(rule_programs(ctx)):
        units = split_top_level(text)
        if len(units) < 2:
            continue
        rng = ctx.rng("rule%d" % k)
        jobs.append((10000 + k, "rules", None, "".join(units)))
        for p in perms(len(units), rng, ctx.n(8, 24)):
            jobs.append((10000 + k, "rules", p, "".join(units[j] for j in p)))
    nprog = ctx.n(60, 1200)
    cap = ctx.n(14, 24)
    for i in range(nprog):
        rng = ctx.rng(i)
        if i % 3 != 2:
            g = ClassGen(rng)
            parts, _ = g.program()
            # split the prelude/classes/functions into one unit per top-level declaration
            units = list(parts)
            kind = "classes"
        else:
            made = make_program(rng)
            if not made:
                continue
            prog = made[0]
            if len(prog["funcs"]) < 1:
                continue
            n = len(prog["funcs"]) + 1
            units = None
            kind = "classical"
        if kind == "classes":
            n = len(units)
            ps = perms(n, rng, cap)
            jobs.append((i, kind, None, "\n".join(units) + "\n"))
            for p in ps:
                jobs.append((i, kind, p, "\n".join(units[j] for j in p) + "\n"))
        else:
            ps = perms(n, rng, cap)
            jobs.append((i, kind, None, render(prog)[0]))
            for p in ps:
                jobs.append((i, kind, p, render(prog, p)[0]))

    # programs that bring their own root class, run where no stdlib bloch.lang.Object can be found
    own_root = [
        "class Object { public constructor() -> Object = default; }\n"
        "class Animal { public int legs; public constructor(int legs) -> Animal { this.legs = legs; return this; } "
        "public function describe() -> string { return \"legs=\" + this.legs; } }\n"
        "class Dog extends Animal { public constructor() -> Dog { super(4); return this; } }\n"
        "function main() -> void { Animal a = new Dog(); echo(a.describe()); }\n",
        "class Object { public int seen = 0; public constructor() -> Object { this.seen = 1; return this; } }\n"
        "class Leaf { public int v = 2; public constructor() -> Leaf = default; }\n"
        "function show(Leaf l) -> int { return l.v + l.seen; }\n"
        "function main() -> void { echo(show(new Leaf())); }\n",
    ]
    for k, text in enumerate(own_root):
        units = split_top_level(text)
        rng = ctx.rng("ownroot%d" % k)
        jobs.append((20000 + k, "own-root", None, "".join(units)))
        for p in perms(len(units), rng, 24):
            jobs.append((20000 + k, "own-root", p, "".join(units[j] for j in p)))

    def one(job):
        i, kind, p, src = job
        env = {"BLOCH_VERIF_GC": "none"}
        if kind == "own-root":
            env["BLOCH_STDLIB_PATH"] = "/nonexistent/bloch-stdlib"
        r, _, _, _ = core.run_bloch(binary, src, env=env, timeout=60)
        return job, r

    results = core.pmap(one, jobs)
    base = {}
    for (i, kind, p, src), r in results:
        if p is None:
            base[i] = (src, r)
            ctx.count("base_" + kind)
    for (i, kind, p, src), r in results:
        if p is None:
            continue
        bsrc, br = base[i]
        a, b = outcome(br), outcome(r)
        ctx.note_case((i, tuple(p)), sample=dict(program=i, kind=kind, permutation=p))
        ctx.count("permutations")
        if len(p) <= 5:
            ctx.count("programs_enumerated_exhaustively_perm")
        if a == b:
            continue
        files = {"base.bloch": bsrc, "permuted.bloch": src, "base.out": br.stdout[-3000:] + br.stderr[-800:],
                 "permuted.out": r.stdout[-3000:] + r.stderr[-800:]}
        if b[0] in ("sanitizer", "signal", "raw", "timeout"):
            key = "order:%s:crash:%s" % (kind, b[1] if len(b) > 1 else b[0])
        elif a[0] != b[0] or (a[0] == "diag" and a[1] != b[1]):
            key = "order:%s:accept" % kind
        else:
            key = "order:%s:output" % kind
        ctx.violation(key, "permutation %r of program %d changed the outcome: %s -> %s" %
                      (p, i, str(a)[:120], str(b)[:160]), dict(index=i, kind=kind, permutation=p), files)


def replay(ctx, data):
    ctx.tier = data.get("tier", "quick")
    print("re-run ./check C10 with VERIF_SEED=%s; witness programs are stored next to replay.json" % data.get("seed"))
    binary = build.build("bloch", "asan")
    import os
    d = os.path.join(core.VERIF, "replay", "C10", data["key"])
    outs = []
    for f in ("base.bloch", "permuted.bloch"):
        with open(os.path.join(d, f)) as fh:
            r, _, _, _ = core.run_bloch(binary, fh.read(), env={"BLOCH_VERIF_GC": "none"})
        outs.append(outcome(r))
    print(outs)
    if outs[0] != outs[1]:
        ctx.violation(data["key"], "replayed: %r vs %r" % (outs[0], outs[1]), data["case"])
