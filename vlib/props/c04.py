"""C04: see DESIGN.md section 3. In-process monitor (harness/simmon.cpp) + language path."""
from .. import simmon_driver, qlang

PROP = "C04"
RULE = ("random states (n<=5) x every target: the reset is run K times on copies under a draw grid; "
        "target must be |0> and the draw-averaged reduced state of the other qubits must equal the "
        "one before (max-norm <= 2/K+1e-9); GHZ(2..4) witnesses; Bloch programs resetting by "
        "statement, helper function, object destruction and index reuse, partner statistics over "
        "seeded shots within 6 sigma. A case is one (state, all targets) or one program.")
ASSUMPTIONS = ["reset's randomness is enumerated through the BLOCH_VERIF draw source (grid of K draws)",
               "language-path statistics use the seeded production RNG and a 6-sigma bound"]


def run(ctx):
    ctx.rule = RULE
    ctx.assumptions = ASSUMPTIONS
    simmon_driver.run_simmon(ctx, PROP)
    qlang.run_language_path(ctx, PROP)


def replay(ctx, data):
    case = data["case"]
    if "simmon_case" in case:
        simmon_driver.replay_simmon(ctx, PROP, case)
    else:
        qlang.replay(ctx, PROP, case)
