"""C07: classical evaluation agrees with a reference interpreter written from the documentation."""
import re

from .. import build, core
from ..gen_classical import make_program

PROP = "C07"
RULE = ("type-directed random programs over the documented classical core (int/long/float/bit/"
        "boolean/char/string, promotion, '/', '%', comparisons, logical and bitwise operators, casts, "
        "string concatenation, arrays with value semantics and bounds checks, if/else, ternary "
        "statement, while, for, postfix ++/--, functions incl. recursion, early return); the "
        "reference interpreter (vlib/gen_classical.py) computes the expected echo lines or the "
        "expected first runtime error (kind + line). Distinct = distinct program texts; non-trivial "
        "= at least 3 echo lines or an expected runtime error. The operator x operand-type "
        "coverage table is reported.")
ASSUMPTIONS = ["kept out (documentation does not fix the result): integer overflow, '%' on negative "
               "operands, side effects/errors under && and ||, char echo/concatenation, echo of "
               "float[] as a whole, stdout preceding a runtime error, evaluation order of two "
               "side-effecting operands",
               "echo formatting follows the docs and, where they are silent, the existing tests "
               "(3.0 for whole floats, %g otherwise, {1, 2, 3}, true/false)",
               "programs use globally unique local names so that scoping (C09) cannot change the output"]


def classify_mismatch(prog_src, exp, got_lines):
    """Bucket by the first differing echo statement's operator."""
    for i, (a, b) in enumerate(zip(exp, got_lines)):
        if a != b:
            return "line%d" % i
    return "length"


def first_op(src_line):
    m = re.search(r"\(([^()]*?) (\+|-|\*|/|%|==|!=|<=|>=|<|>|&&|\|\||&|\||\^) ", src_line)
    return m.group(2) if m else "x"


def check_case(ctx, binary, index, hostile=False):
    made = make_program(ctx.rng(index), hostile)
    if made is None:
        ctx.count("discarded_keptout")
        return
    prog, src, line_of, exp, cov = made
    with ctx.lock:
        ctx.extra.setdefault("_cov", set()).update(cov)
    r, _, _, _ = core.run_bloch(binary, src, timeout=60)
    cls = r.classify()
    nontrivial = exp[0] == "error" or len(exp[1]) >= 3
    ctx.note_case(src, nontrivial=nontrivial,
                  sample=dict(program=src[:700], expected=list(exp)[:2] + [exp[1][:6] if exp[0] == "ok" else exp[2]]))
    files = {"prog.bloch": src, "stderr.txt": r.stderr[-6000:], "stdout.txt": r.stdout[-4000:],
             "expected.txt": repr(exp)}
    case = dict(index=index, hostile=hostile)
    if cls[0] in ("sanitizer", "signal", "timeout", "raw", "exit", "exit1-nodiag"):
        ctx.count("crashed")
        ctx.violation("crash:" + (str(cls[1]) if len(cls) > 1 else cls[0]),
                      "interpreter crashed on a reference-accepted program: %r" % (cls,), case, files)
        return
    if cls[0] == "diag" and cls[1] == "Semantic" and "by zero in constant" in cls[4]:
        # a division/modulo by a constant zero diagnosed at compile time, at the same place
        ctx.count("static_zero_division")
        return
    if cls[0] == "diag" and cls[1] != "Runtime":
        stmt_line = src.split("\n")[cls[2] - 1] if 0 < cls[2] <= src.count("\n") else ""
        ctx.violation("classical:rejected:%s:%s" % (cls[1], first_op(stmt_line)),
                      "well-typed program rejected: %s at line %d: %s | %s" % (cls[1], cls[2], cls[4], stmt_line.strip()),
                      case, files)
        return
    if exp[0] == "ok":
        ctx.count("expected_ok")
        if cls[0] == "diag":
            stmt_line = src.split("\n")[cls[2] - 1] if 0 < cls[2] <= src.count("\n") else ""
            msg = re.sub(r"\d+", "N", cls[4])[:50]
            ctx.violation("classical:unexpected-error:" + msg.replace(" ", "_"),
                          "reference finishes normally but the run raised: %s (line %d: %s)" %
                          (cls[4], cls[2], stmt_line.strip()), case, files)
            return
        got = r.stdout.split("\n")
        if got and got[-1] == "":
            got.pop()
        ctx.count("echo_lines_compared", len(exp[1]))
        if got != exp[1]:
            i = next((j for j, (a, b) in enumerate(zip(exp[1], got)) if a != b), min(len(got), len(exp[1])))
            # find the echo statement producing line i is hard in general; report values
            ctx.violation("classical:output",
                          "echo line %d: expected %r, got %r" %
                          (i, exp[1][i] if i < len(exp[1]) else None, got[i] if i < len(got) else None),
                          case, files)
        return
    # expected runtime error
    ctx.count("expected_error")
    _, kind, line, detail = exp
    if cls[0] == "ok":
        ctx.violation("classical:error:missing:" + kind.replace(" ", "-"),
                      "reference raises '%s' at line %d but the run finished" % (kind, line), case, files)
        return
    want = detail or kind
    if cls[2] != line or want not in cls[4]:
        ctx.violation("classical:error:%s" % kind.replace(" ", "-"),
                      "expected Runtime error '%s' at line %d, got '%s' at line %d" %
                      (want, line, cls[4], cls[2]), case, files)


def run(ctx):
    ctx.rule = RULE
    ctx.assumptions = ASSUMPTIONS
    binary = build.build("bloch", "asan")
    n = ctx.n(2500, 40000)
    core.pmap(lambda i: check_case(ctx, binary, i), range(n))
    cov = ctx.extra.pop("_cov", set())
    ctx.extra["operator_type_coverage"] = sorted("/".join(map(str, c)) for c in cov)
    ctx.counters["coverage_cells"] = len(cov)


def replay(ctx, data):
    binary = build.build("bloch", "asan")
    check_case(ctx, binary, data["case"]["index"], data["case"].get("hostile", False))
    ctx.extra.pop("_cov", None)
