"""C07: classical evaluation agrees with a reference interpreter written from the documentation."""
import re

from .. import build, core
from ..gen_classical import make_program

PROP = "C07"
RULE = ("type-directed random programs over the documented classical core (int/long/float/bit/"
        "boolean/char/string, promotion, '/', '%', comparisons, logical and bitwise operators, casts, "
        "string concatenation, arrays with value semantics and bounds checks, if/else, ternary "
        "statement, while, for, postfix ++/--, functions incl. recursion, early return); the "
        "reference interpreter (vlib/gen_classical.py) computes the expected echo lines or the "
        "expected first runtime error (kind + line). Distinct = distinct program texts; non-trivial "
        "= at least 3 echo lines or an expected runtime error. The operator x operand-type "
        "coverage table is reported. Directed family 'width': every mixed int/long "
        "+,-,*,% (operands as locals, literals, call results, array elements, parameters) feeds a "
        "consumer that leaves the 32-bit range but is exact in 64 bits, so a result carried at the "
        "wrong width prints a different number.")
ASSUMPTIONS = ["kept out (documentation does not fix the result): integer overflow, '%' on negative "
               "operands, side effects/errors under && and ||, char echo/concatenation, echo of "
               "float[] as a whole, stdout preceding a runtime error, evaluation order of two "
               "side-effecting operands",
               "echo formatting follows the docs and, where they are silent, the existing tests "
               "(3.0 for whole floats, %g otherwise, {1, 2, 3}, true/false)",
               "programs use globally unique local names so that scoping (C09) cannot change the output"]


def classify_mismatch(prog_src, exp, got_lines):
    """Bucket by the first differing echo statement's operator."""
    for i, (a, b) in enumerate(zip(exp, got_lines)):
        if a != b:
            return "line%d" % i
    return "length"


def first_op(src_line):
    m = re.search(r"\(([^()]*?) (\+|-|\*|/|%|==|!=|<=|>=|<|>|&&|\|\||&|\||\^) ", src_line)
    return m.group(2) if m else "x"


def check_case(ctx, binary, index, hostile=False):
    made = make_program(ctx.rng(index), hostile)
    if made is None:
        ctx.count("discarded_keptout")
        return
    prog, src, line_of, exp, cov = made
    with ctx.lock:
        ctx.extra.setdefault("_cov", set()).update(cov)
    r, _, _, _ = core.run_bloch(binary, src, timeout=60)
    cls = r.classify()
    nontrivial = exp[0] == "error" or len(exp[1]) >= 3
    ctx.note_case(src, nontrivial=nontrivial,
                  sample=dict(program=src[:700], expected=list(exp)[:2] + [exp[1][:6] if exp[0] == "ok" else exp[2]]))
    files = {"prog.bloch": src, "stderr.txt": r.stderr[-6000:], "stdout.txt": r.stdout[-4000:],
             "expected.txt": repr(exp)}
    case = dict(index=index, hostile=hostile)
    if cls[0] in ("sanitizer", "signal", "timeout", "raw", "exit", "exit1-nodiag"):
        ctx.count("crashed")
        ctx.violation("crash:" + (str(cls[1]) if len(cls) > 1 else cls[0]),
                      "interpreter crashed on a reference-accepted program: %r" % (cls,), case, files)
        return
    if cls[0] == "diag" and cls[1] == "Semantic" and "by zero in constant" in cls[4]:
        # a division/modulo by a constant zero diagnosed at compile time, at the same place
        ctx.count("static_zero_division")
        return
    if cls[0] == "diag" and cls[1] != "Runtime":
        stmt_line = src.split("\n")[cls[2] - 1] if 0 < cls[2] <= src.count("\n") else ""
        ctx.violation("classical:rejected:%s:%s" % (cls[1], first_op(stmt_line)),
                      "well-typed program rejected: %s at line %d: %s | %s" % (cls[1], cls[2], cls[4], stmt_line.strip()),
                      case, files)
        return
    if exp[0] == "ok":
        ctx.count("expected_ok")
        if cls[0] == "diag":
            stmt_line = src.split("\n")[cls[2] - 1] if 0 < cls[2] <= src.count("\n") else ""
            msg = re.sub(r"\d+", "N", cls[4])[:50]
            ctx.violation("classical:unexpected-error:" + msg.replace(" ", "_"),
                          "reference finishes normally but the run raised: %s (line %d: %s)" %
                          (cls[4], cls[2], stmt_line.strip()), case, files)
            return
        got = r.stdout.split("\n")
        if got and got[-1] == "":
            got.pop()
        ctx.count("echo_lines_compared", len(exp[1]))
        if got != exp[1]:
            i = next((j for j, (a, b) in enumerate(zip(exp[1], got)) if a != b), min(len(got), len(exp[1])))
            # find the echo statement producing line i is hard in general; report values
            ctx.violation("classical:output",
                          "echo line %d: expected %r, got %r" %
                          (i, exp[1][i] if i < len(exp[1]) else None, got[i] if i < len(got) else None),
                          case, files)
        return
    # expected runtime error
    ctx.count("expected_error")
    _, kind, line, detail = exp
    if cls[0] == "ok":
        ctx.violation("classical:error:missing:" + kind.replace(" ", "-"),
                      "reference raises '%s' at line %d but the run finished" % (kind, line), case, files)
        return
    want = detail or kind
    if cls[2] != line or want not in cls[4]:
        ctx.violation("classical:error:%s" % kind.replace(" ", "-"),
                      "expected Runtime error '%s' at line %d, got '%s' at line %d" %
                      (want, line, cls[4], cls[2]), case, files)


# ---- directed family: result width of mixed int/long arithmetic -------------------------------
# docs: int -> long -> float promotion, so (int op long), (long op int) and (long op long) are long.
# The printed value of a small result is the same for either width; the width only shows when the
# result feeds an operation that leaves the 32-bit range.  Every operand form x consumer below is
# exact in 64 bits (no overflow in the documented semantics), so the expected line is plain
# integer arithmetic.
W_OPS = ["+", "-", "*", "%"]
W_PAIRS = [("int", "long"), ("long", "int"), ("long", "long")]
W_FORMS = ["local", "literal", "call", "element", "param"]
W_CONSUMERS = [("(%s) * 1000000000", lambda r: r * 1000000000),
               ("(%s) + 2147483647", lambda r: r + 2147483647),
               ("2000000000 + (%s) * 1000", lambda r: 2000000000 + r * 1000),
               ("-(%s) - 2147483647", lambda r: -r - 2147483647),
               ("((%s) * 65536) * 65536", lambda r: r * 65536 * 65536)]


def width_program(rng):
    decl, body, exp = [], [], []
    cells = []
    for k in range(14):
        op = rng.choice(W_OPS)
        lt, rt = rng.choice(W_PAIRS)
        b = rng.randint(2, 900)
        a = rng.randint(3, 900)
        if op == "-":
            a = b + rng.randint(3, 900)
        if op == "%":
            # keep the remainder >= 3 so that every consumer leaves the int range
            if rng.random() < 0.5:
                b = a + rng.randint(1, 10 ** 9)   # a % b == a
            else:
                a = b * rng.randint(1, 50) + rng.randint(3, b) if b > 3 else a
                if a % b < 3:
                    b = a + 7
        r = {"+": a + b, "-": a - b, "*": a * b, "%": a % b}[op]
        fl, fr = rng.choice(W_FORMS), rng.choice(W_FORMS)

        def operand(val, ty, form, tag):
            lit = "%d%s" % (val, "L" if ty == "long" else "")
            if form == "literal":
                return lit
            if form == "local":
                decl.append("    %s w%s = %s;" % (ty, tag, lit))
                return "w" + tag
            if form == "call":
                return "%s(%s)" % ("idl" if ty == "long" else "idi", lit)
            if form == "element":
                decl.append("    %s[] e%s = {%s, %s};" % (ty, tag, lit, lit))
                return "e%s[1]" % tag
            return None   # param: handled by the caller

        if "param" in (fl, fr):
            # both operands arrive as parameters of a helper returning the consumer's value
            cons, fn = rng.choice(W_CONSUMERS)
            name = "pw%d" % k
            cells.append((op, lt, rt, "param", cons))
            body.append(("function %s(%s pa, %s pb) -> long { return %s; }" % (name, lt, rt, cons % ("pa %s pb" % op)),
                         "    echo(%s(%d%s, %d%s));" % (name, a, "L" if lt == "long" else "", b, "L" if rt == "long" else "")))
            exp.append(str(fn(r)))
            continue
        la = operand(a, lt, fl, "%da" % k)
        rb = operand(b, rt, fr, "%db" % k)
        cons, fn = rng.choice(W_CONSUMERS)
        cells.append((op, lt, rt, fl + "/" + fr, cons))
        body.append((None, "    echo(%s);" % (cons % ("%s %s %s" % (la, op, rb)))))
        exp.append(str(fn(r)))
    src = ["function idi(int v) -> int { return v; }", "function idl(long v) -> long { return v; }"]
    src += [t for t, _ in body if t]
    src += ["function main() -> void {"] + decl + [l for _, l in body] + ["}"]
    return "\n".join(src) + "\n", exp, cells


def width_case(ctx, binary, index):
    src, exp, cells = width_program(ctx.rng(("width", index)))
    with ctx.lock:
        ctx.extra.setdefault("_wcells", set()).update(cells)
    r, _, _, _ = core.run_bloch(binary, src, timeout=60)
    cls = r.classify()
    ctx.note_case(src, nontrivial=True, sample=dict(program=src[:500], expected=exp[:4]))
    files = {"prog.bloch": src, "stderr.txt": r.stderr[-6000:], "stdout.txt": r.stdout[-4000:],
             "expected.txt": "\n".join(exp)}
    case = dict(index=index, family="width")
    ctx.count("width_programs")
    if cls[0] != "ok":
        ctx.violation("classical:width:not-ok:" + str(cls[0]),
                      "mixed int/long arithmetic program did not finish normally: %r" % (cls[:5],), case, files)
        return
    got = r.stdout.split("\n")
    if got and got[-1] == "":
        got.pop()
    ctx.count("width_lines_compared", len(exp))
    if got != exp:
        i = next((j for j, (a, b) in enumerate(zip(exp, got)) if a != b), min(len(got), len(exp)))
        echo_lines = [l for l in src.split("\n") if l.startswith("    echo(")]
        m = re.search(r" (\+|-|\*|%) ", echo_lines[i]) if i < len(echo_lines) else None
        ctx.violation("classical:width:" + ({"+": "add", "-": "sub", "*": "mul", "%": "mod"}[cells[i][0]] + ":" + cells[i][1] + "-" + cells[i][2] if i < len(cells) else "length"),
                      "line %d (%s): expected %s, got %s" %
                      (i, echo_lines[i].strip() if i < len(echo_lines) else "?", exp[i] if i < len(exp) else None,
                       got[i] if i < len(got) else None), case, files)


def run(ctx):
    ctx.rule = RULE
    ctx.assumptions = ASSUMPTIONS
    binary = build.build("bloch", "asan")
    n = ctx.n(2500, 40000)
    core.pmap(lambda i: check_case(ctx, binary, i), range(n))
    core.pmap(lambda i: width_case(ctx, binary, i), range(ctx.n(120, 2000)))
    wc = ctx.extra.pop("_wcells", set())
    ctx.extra["width_cells_observed"] = sorted("%s:%s-%s:%s" % (c[0], c[1], c[2], c[3]) for c in set((c[0], c[1], c[2], c[3]) for c in wc))
    ctx.counters["width_cells"] = len(ctx.extra["width_cells_observed"])
    cov = ctx.extra.pop("_cov", set())
    ctx.extra["operator_type_coverage"] = sorted("/".join(map(str, c)) for c in cov)
    ctx.counters["coverage_cells"] = len(cov)


def replay(ctx, data):
    binary = build.build("bloch", "asan")
    if data["case"].get("family") == "width":
        width_case(ctx, binary, data["case"]["index"])
        ctx.extra.pop("_wcells", None)
        return
    check_case(ctx, binary, data["case"]["index"], data["case"].get("hostile", False))
    ctx.extra.pop("_cov", None)
