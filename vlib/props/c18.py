"""C18: shots are isolated - an N-shot run equals N independent fresh runs.

Run A: one process executes the analysed program N times (--shots=N --echo=all) with per-execution
reseeding (execution k is seeded from seed and k).  Runs B_k: N fresh processes, one execution
each, with BLOCH_VERIF_EXEC_BASE=k so that they see the same random draws.  The per-execution event
streams (simulator operations with indices and outcomes, allocations/releases, echo lines, tracked
records, error) must be identical, and the QASM of run A (last shot) must equal B_{N-1}'s.
harness/evalmon repeats the experiment in process on ONE parsed+analysed Program (also analysed
twice) and compares with the CLI."""
import json

from .. import build, core, qlang

PROP = "C18"
RULE = ("programs whose behaviour depends on state that could leak between executions: static counters "
        "mutated per run, generic specialisations created lazily, arrays sized by final int constants, "
        "objects that own qubits (index free list), measured flags left set, tracked counts, allocation "
        "that depends on measured bits; built from the quantum generator (profiles qasm/handles/tracked/"
        "measure) plus a classical epilogue; N in {2, 5} quick, {2, 8, 32} thorough. Distinct = distinct "
        "(program, N); non-trivial = the program allocates at least one object or qubit.")
ASSUMPTIONS = ["per-execution reseeding through the guarded exec_begin hook makes shot k of a multi-shot run and a "
               "fresh process with EXEC_BASE=k consume identical draws",
               "the elapsed-time line and warning lines are ignored"]

EPILOGUE_CLASSES = """\
class Cnt {
    public static int n = 0;
    public static int[] hist = {0, 0, 0};
    public int id;
    public constructor() -> Cnt {
        Cnt.n = Cnt.n + 1;
        this.id = Cnt.n;
        return this;
    }
}
class GBox<T> {
    public static int made = 0;
    public T v;
    public constructor(T v) -> GBox<T> {
        this.v = v;
        made = made + 1;
        return this;
    }
    public function count() -> int {
        return made;
    }
}
"""

EPILOGUE = """\
    Cnt c1 = new Cnt();
    Cnt c2 = new Cnt();
    echo(c2.id);
    echo(Cnt.n);
    final int sz = 3;
    int[sz] arr;
    arr[Cnt.n - 1] = 7;
    echo(arr);
    GBox<int> gb = new GBox<int>(5);
    GBox<string> gs = new GBox<>("q");
    echo(gb.count() + gs.count());
    H1 late = new H1();
    x(late.q);
    bit lb = measure late.q;
    echo(lb);
"""


def make_source(ctx, index):
    rng = ctx.rng("iso/%d" % index)
    prof = ["qasm", "handles", "tracked", "measure"][index % 4]
    ir, src = qlang.generate(rng, prof)
    # splice the epilogue before the closing brace of main and the classes before main
    i = src.rindex("}")
    src = src[:i] + EPILOGUE + "}\n"
    j = src.index("function main()")
    if "@shots" in src[:j][-20:]:
        j = src.rindex("@shots", 0, j)
    src = src[:j] + EPILOGUE_CLASSES + src[j:]
    return src


def digest(events):
    """Per-execution observable stream (without execution index / wall-clock dependent fields)."""
    out = []
    for e in events:
        k = e["k"]
        if k == "sim":
            out.append(("sim", e["op"], e["q0"], e["q1"], round(e["theta"], 9), e["out"], e["n"]))
        elif k in ("qalloc", "qfree"):
            out.append((k, e["idx"]))
        elif k == "echo":
            out.append(("echo", e["text"]))
        elif k == "tracked":
            out.append(("tracked", e["key"], e["outcome"]))
        elif k == "exec_end":
            out.append(("end", e["boundaries"]))
    return out


def check_case(ctx, binary, evalmon, case):
    src = make_source(ctx, case["index"])
    N = case["n"]
    seed = (ctx.seed * 15485863 + case["index"]) & 0x7fffffff
    env = {"BLOCH_VERIF_SEED": str(seed), "BLOCH_VERIF_GC": "none"}
    ra, eva, qa, _ = core.run_bloch(binary, src, args=["--shots=%d" % N, "--echo=all"], env=env, trace=True, timeout=300)
    ca = ra.classify()
    files = {"prog.bloch": src, "multi.stdout": ra.stdout[-6000:], "multi.stderr": ra.stderr[-2000:]}
    if ca[0] not in ("ok", "diag"):
        ctx.violation("crash:%s" % (ca[1] if len(ca) > 1 else ca[0],), "multi-shot run failed: %r" % (ca,), case, files)
        return
    runs = qlang.split_executions(eva)
    ctx.note_case((src, N), sample=dict(shots=N, tail=src[-500:]))
    ctx.count("multi_shot_runs")
    singles = []
    for k in range(N if ca[0] == "ok" else len(runs)):
        e = dict(env)
        e["BLOCH_VERIF_EXEC_BASE"] = str(k)
        rb, evb, qb, _ = core.run_bloch(binary, src, args=["--shots=1", "--echo=all"], env=e, trace=True, timeout=120)
        singles.append((rb, evb, qb))
        ctx.count("fresh_runs")
    for k, (rb, evb, qb) in enumerate(singles):
        if k >= len(runs):
            ctx.violation("shot:count", "multi-shot run has no execution %d" % k, case, files)
            return
        a, b = digest(runs[k]), digest(qlang.split_executions(evb)[0] if evb else [])
        ctx.count("shot_comparisons")
        if a != b:
            i = next((j for j, (x, y) in enumerate(zip(a, b)) if x != y), min(len(a), len(b)))
            kind = (a[i][0] if i < len(a) else b[i][0]) if (i < len(a) or i < len(b)) else "length"
            kind = {"sim": "sim", "qalloc": "index", "qfree": "index", "echo": "stdout", "tracked": "tracked",
                    "end": "boundaries"}.get(kind, kind)
            ctx.violation("shot:%s" % kind,
                          "shot %d of %d differs from a fresh run at event %d: multi=%r fresh=%r" %
                          (k, N, i, a[i] if i < len(a) else None, b[i] if i < len(b) else None),
                          dict(case, shot=k), dict(files, **{"fresh.stdout": rb.stdout[-3000:]}))
            return
        cb = rb.classify()
        if k == len(runs) - 1 and ca[0] == "diag":
            if cb[0] != "diag" or cb[1:3] != ca[1:3]:
                ctx.violation("shot:error", "shot %d ended with %r in the multi-shot run, %r fresh" % (k, ca, cb),
                              dict(case, shot=k), files)
    if ca[0] == "ok" and singles and qa != singles[-1][2]:
        ctx.violation("shot:qasm", "QASM of the last shot differs from the fresh run's", case,
                      dict(files, **{"multi.qasm": qa or "", "fresh.qasm": singles[-1][2] or ""}))
    # in-process re-execution on one Program, analysed once and twice
    if evalmon and ca[0] == "ok":
        d = core.scratch_dir("re")
        import os
        p = os.path.join(d, "p.bloch")
        with open(p, "w") as f:
            f.write(src)
        outs = []
        for twice in ([], ["analyse-twice"]):
            r = core.run([evalmon, "reexec", p, str(N)] + twice, env=env, timeout=300)
            if r.classify()[0] != "ok":
                ctx.violation("crash:evalmon:%s" % (r.classify()[1] if len(r.classify()) > 1 else r.classify()[0],),
                              "in-process re-execution failed: %r" % (r.classify(),), case,
                              dict(files, **{"evalmon.stderr": r.stderr[-4000:]}))
                return
            outs.append(r.stdout)
        ctx.count("in_process_reexecutions", 2)
        if outs[0] != outs[1]:
            ctx.violation("shot:analyse-twice", "analysing the Program twice changed what its executions print", case,
                          dict(files, **{"once.txt": outs[0][-3000:], "twice.txt": outs[1][-3000:]}))
        # per-execution echo lines must match the CLI's per-shot echo events
        blocks = outs[0].split("BEGIN-EXEC ")[1:]
        for k, blk in enumerate(blocks[:len(runs)]):
            lines = blk.split("\n")[1:]
            echo = []
            for l in lines:
                if l.startswith(("TRACKED", "ERROR", "END-EXEC")):
                    break
                echo.append(l)
            want = [e["text"] for e in runs[k] if e["k"] == "echo"]
            want_lines = "\n".join(want).split("\n") if want else []
            if echo != want_lines:
                ctx.violation("shot:in-process-stdout", "in-process execution %d prints %r, CLI shot printed %r" %
                              (k, echo[:6], want_lines[:6]), dict(case, shot=k), files)
                break


def run(ctx):
    ctx.rule = RULE
    ctx.assumptions = ASSUMPTIONS
    binary = build.build("bloch", "asan")
    evalmon = build.build("evalmon", "asan")
    cases = []
    for i in range(ctx.n(80, 1500)):
        for n in ((2, 5) if ctx.quick() else (2, 8, 32)):
            if (i + n) % 2 == 0 or n == 2:
                cases.append(dict(index=i, n=n))
    core.pmap(lambda c: check_case(ctx, binary, evalmon, c), cases)


def replay(ctx, data):
    binary = build.build("bloch", "asan")
    evalmon = build.build("evalmon", "asan")
    c = dict(data["case"])
    c.pop("shot", None)
    check_case(ctx, binary, evalmon, c)
