"""C18: shots are isolated - an N-shot run equals N independent fresh runs.

Run A: one process executes the analysed program N times (--shots=N --echo=all) with per-execution
reseeding (execution k is seeded from seed and k).  Runs B_k: N fresh processes, one execution
each, with BLOCH_VERIF_EXEC_BASE=k so that they see the same random draws.  The per-execution event
streams (simulator operations with indices and outcomes, allocations/releases, echo lines, tracked
records, error) must be identical, and the QASM of run A (last shot) must equal B_{N-1}'s.
harness/evalmon repeats the experiment in process on ONE parsed+analysed Program (also analysed
twice) and compares with the CLI."""
import json

from .. import build, core, qlang
from .. import gen_classes, gen_classical

PROP = "C18"
RULE = ("programs whose behaviour depends on state that could leak between executions: static counters "
        "mutated per run, generic specialisations created lazily, arrays sized by final int constants, "
        "objects that own qubits (index free list), measured flags left set, tracked counts, allocation "
        "that depends on measured bits; built from the quantum generator (profiles qasm/handles/tracked/"
        "measure) plus a classical epilogue; a deterministic classical family (name-shadowing generics: class names reused as type-parameter names with 'new' inside generic code; the C08 class-hierarchy generator; the C07 classical generator) where every shot must print what one fresh run prints; N in {2, 5} quick, {2, 8, 32} thorough, with --echo=all; a third of the programs also with the default echo policy (suppressed for N >= 2) compared, echo lines aside, with fresh printing runs. Distinct = distinct "
        "(program, N); non-trivial = the program allocates at least one object or qubit.")
ASSUMPTIONS = ["per-execution reseeding through the guarded exec_begin hook makes shot k of a multi-shot run and a "
               "fresh process with EXEC_BASE=k consume identical draws",
               "the elapsed-time line and warning lines are ignored"]

EPILOGUE_CLASSES = """\
class Cnt {
    public static int n = 0;
    public static int[] hist = {0, 0, 0};
    public int id;
    public constructor() -> Cnt {
        Cnt.n = Cnt.n + 1;
        this.id = Cnt.n;
        return this;
    }
}
class GBox<T> {
    public static int made = 0;
    public T v;
    public constructor(T v) -> GBox<T> {
        this.v = v;
        made = made + 1;
        return this;
    }
    public function count() -> int {
        return made;
    }
}
"""

EPILOGUE = """\
    Cnt c1 = new Cnt();
    Cnt c2 = new Cnt();
    echo(c2.id);
    echo(Cnt.n);
    final int sz = 3;
    int[sz] arr;
    arr[Cnt.n - 1] = 7;
    echo(arr);
    GBox<int> gb = new GBox<int>(5);
    GBox<string> gs = new GBox<>("q");
    echo(gb.count() + gs.count());
    H1 late = new H1();
    x(late.q);
    bit lb = measure late.q;
    echo(lb);
    qubit coin;
    h(coin);
    bit cm = measure coin;
    final bit fixb = cm;
    final int fixi = 2 + (int)(cm);
    final boolean fixz = cm == 1b;
    echo(fixb);
    echo(fixi);
    if (fixz) {
        x(late.qs[0]);
    }
    bit after = measure late.qs[0];
    echo(after);
"""


def make_source(ctx, index):
    rng = ctx.rng("iso/%d" % index)
    prof = ["qasm", "handles", "tracked", "measure"][index % 4]
    ir, src = qlang.generate(rng, prof)
    # splice the epilogue before the closing brace of main and the classes before main
    i = src.rindex("}")
    src = src[:i] + EPILOGUE + "}\n"
    j = src.index("function main()")
    if "@shots" in src[:j][-20:]:
        j = src.rindex("@shots", 0, j)
    src = src[:j] + EPILOGUE_CLASSES + src[j:]
    return src


NAME_POOL = ["Item", "Tag", "T", "K", "V", "Node", "E"]


def shadow_program(rng):
    """Deterministic classical program in which class names, type-parameter names and the classes
    instantiated from inside generic code overlap: whatever an execution caches per name (type bindings,
    specialisations, static storage, constructor tables) is wrong for the next one if it survives."""
    plain = rng.sample(NAME_POOL, rng.randint(2, 3))
    gnames = rng.sample(["Shelf", "Wrap", "Duo", "Crate"], rng.randint(1, 3))
    out = []
    for n in plain:
        out.append("class %s {\n    public int id;\n    public static int made = 0;\n"
                   "    public constructor(int id) -> %s { this.id = id; made = made + 1; return this; }\n"
                   "    public function stamp() -> int { return this.id * 10 + made; }\n}" % (n, n))
    gens = []
    for gi, g in enumerate(gnames):
        nparams = rng.choice([1, 1, 2])
        params = []
        while len(params) < nparams:                  # type-parameter names, biased towards class names
            c = rng.choice(plain) if rng.random() < 0.6 else rng.choice(NAME_POOL)
            if c not in params:
                params.append(c)
        usable = [n for n in plain if n not in params]
        body = ["class %s<%s> {" % (g, ", ".join(params))]
        body.append("    public %s held;" % params[0])
        body.append("    public static int count = 0;")
        sig = ", ".join("%s a%d" % (p_, i) for i, p_ in enumerate(params))
        inner = ""
        if usable and rng.random() < 0.5:
            inner = " %s tmp = new %s(%d);" % (usable[0], usable[0], rng.randint(1, 9))
        body.append("    public constructor(%s) -> %s<%s> { this.held = a0; count = count + 1;%s return this; }" %
                    (sig, g, ", ".join(params), inner))
        body.append("    public function get() -> %s { return this.held; }" % params[0])
        body.append("    public function seen() -> int { return count; }")
        makers = []
        for mi, n in enumerate(usable[:2]):
            body.append("    public function mk%d() -> %s { return new %s(%d); }" % (mi, n, n, rng.randint(1, 9)))
            makers.append(("mk%d" % mi, n))
        if gens and rng.random() < 0.7:
            og, op, _ = rng.choice(gens)
            if len(op) == 1:
                body.append("    public function nest() -> %s<int> { return new %s<int>(%d); }" % (og, og, rng.randint(1, 9)))
                makers.append(("nest", "%s<int>" % og))
        body.append("}")
        out.append("\n".join(body))
        gens.append((g, params, makers))
    main = ["function main() -> void {"]
    vid = [0]

    def fresh():
        vid[0] += 1
        return "v%d" % vid[0]

    def typed_arg():
        k = rng.randrange(3)
        if k == 0:
            return "int", str(rng.randint(1, 50)), lambda v: "echo(%s);" % v
        if k == 1:
            return "string", '"s%d"' % rng.randint(1, 9), lambda v: "echo(%s);" % v
        n = rng.choice(plain)
        return n, "new %s(%d)" % (n, rng.randint(1, 9)), lambda v: "echo(%s.id);" % v
    for _ in range(rng.randint(4, 10)):
        k = rng.randrange(4)
        if k == 0:
            n = rng.choice(plain)
            v = fresh()
            main.append("    %s %s = new %s(%d);" % (n, v, n, rng.randint(1, 9)))
            main.append("    echo(%s.stamp());" % v)
        else:
            g, params, makers = rng.choice(gens)
            args = [typed_arg() for _ in params]
            v = fresh()
            ty = "%s<%s>" % (g, ", ".join(a[0] for a in args))
            main.append("    %s %s = new %s(%s);" % (ty, v, ty, ", ".join(a[1] for a in args)))
            main.append("    " + args[0][2]("%s.get()" % v))
            main.append("    echo(%s.seen());" % v)
            for mk, rt in makers:
                if rng.random() < 0.7:
                    w = fresh()
                    main.append("    %s %s = %s.%s();" % (rt, w, v, mk))
                    main.append("    echo(%s.%s);" % (w, "seen()" if "<" in rt else "stamp()"))
            if rng.random() < 0.4:
                # a plain 'new' right after generic code ran: first use of a stale binding
                n = rng.choice(plain)
                w = fresh()
                main.append("    %s %s = new %s(%d);" % (n, w, n, rng.randint(1, 9)))
                main.append("    echo(%s.stamp());" % w)
    main.append("}")
    # a plain 'new' BEFORE any generic code: correct in a first execution even with a stale cache
    first = rng.choice(plain)
    main.insert(1, "    %s v0 = new %s(1);\n    echo(v0.stamp());" % (first, first))
    return "\n".join(out) + "\n" + "\n".join(main) + "\n"


def stateful_template(rng, index):
    """Hand-written shapes around process-lifetime state an execution could leave behind: number/text
    formatting state, values computed once per class or per specialisation, counters behind static finals."""
    fr = rng.choice(["0.125f", "0.375f", "2.625f", "10.0625f"])
    wh = rng.choice(["2.0f", "7.0f", "100.0f"])
    k = index % 5
    if k == 4:
        # deterministic quantum shapes: every shot ends with a measured-1 qubit that is not reset, and the next
        # shot starts by resetting / re-preparing the same simulator indices
        n = rng.randint(1, 3)
        body = []
        for i in range(n):
            body += ["    qubit q%d;" % i, "    reset q%d;" % i]
        for i in range(n):
            if rng.random() < 0.8:
                body.append("    x(q%d);" % i)
        order = list(range(n))
        rng.shuffle(order)
        for i in order:
            body += ["    bit m%d = measure q%d;" % (i, i), "    echo(m%d);" % i]
        if rng.random() < 0.5:
            body += ["    reset q%d;" % order[0], "    bit again = measure q%d;" % order[0], "    echo(again);"]
        return "function main() -> void {\n" + "\n".join(body) + "\n}\n"
    if k == 0:
        return ("function main() -> void {\n    echo(%s);\n    echo(%s);\n    echo(%s + %s);\n    echo(\"v=\" + %s);\n"
                "    float[] a = {%s, %s};\n    echo(a);\n    echo(3);\n    echo(1.5f * 2);\n}\n" % (fr, wh, fr, fr, fr, fr, wh))
    if k == 1:
        return ("static class Ticket {\n    public static int issued = 0;\n    public static function next() -> int {\n"
                "        issued = issued + 1;\n        return 100 + issued;\n    }\n}\n"
                "class SBox<T> {\n    public static final int ID = Ticket.next();\n    public static final float SCALE = %s * Ticket.next();\n"
                "    public T item;\n    public constructor(T v) -> SBox<T> {\n        this.item = v;\n        return this;\n    }\n"
                "    public function id() -> int {\n        return ID;\n    }\n    public function scale() -> float {\n        return SCALE;\n    }\n}\n"
                "function main() -> void {\n    SBox<int> b = new SBox<int>(1);\n    echo(\"id=\" + b.id() + \" issued=\" + Ticket.issued);\n"
                "    SBox<string> c = new SBox<string>(\"s\");\n    echo(c.id());\n    echo(c.scale());\n    echo(Ticket.issued);\n}\n" % fr)
    if k == 2:
        return ("class Plain {\n    public static final int FIRST = Plain.bump();\n    public static int calls = 0;\n"
                "    public constructor() -> Plain = default;\n    public static function bump() -> int {\n        calls = calls + 1;\n"
                "        return calls * 10;\n    }\n}\nfunction main() -> void {\n    echo(Plain.FIRST);\n    echo(Plain.bump());\n"
                "    echo(\"t=\" + %s);\n    echo(%s);\n}\n" % (fr, wh))
    return ("function fmt(float f) -> string {\n    return \"<\" + f + \">\";\n}\nfunction main() -> void {\n    string s = fmt(%s);\n"
            "    echo(s);\n    echo(fmt(%s));\n    long big = 4294967296L;\n    echo(big);\n    echo(fmt(%s) + fmt(%s));\n    char c = 'x';\n"
            "    echo(\"c=\" + c);\n    echo(true);\n    echo(1b);\n}\n" % (fr, wh, fr, wh))


def classical_source(ctx, index):
    """Deterministic (no simulator draws) programs: every execution must print exactly the same."""
    rng = ctx.rng("cls/%d" % index)
    if index % 6 == 5:
        return stateful_template(rng, index // 6)
    k = index % 3
    if k == 0:
        return shadow_program(rng)
    if k == 1:
        try:
            return gen_classes.generate(rng)[0]
        except Exception:
            return shadow_program(rng)
    made = gen_classical.make_program(rng, False)
    return made[1] if made else shadow_program(rng)


def digest(events):
    """Per-execution observable stream (without execution index / wall-clock dependent fields)."""
    out = []
    for e in events:
        k = e["k"]
        if k == "sim":
            out.append(("sim", e["op"], e["q0"], e["q1"], round(e["theta"], 9), e["out"], e["n"]))
        elif k in ("qalloc", "qfree"):
            out.append((k, e["idx"]))
        elif k == "echo":
            out.append(("echo", e["text"]))
        elif k == "tracked":
            out.append(("tracked", e["key"], e["outcome"]))
        elif k == "exec_end":
            out.append(("end", e["boundaries"]))
    return out


def check_case(ctx, binary, evalmon, case):
    classical = case.get("family") == "classical"
    src = classical_source(ctx, case["index"]) if classical else make_source(ctx, case["index"])
    N = case["n"]
    seed = (ctx.seed * 15485863 + case["index"]) & 0x7fffffff
    env = {"BLOCH_VERIF_SEED": str(seed), "BLOCH_VERIF_GC": "none"}
    # echo policy of the multi-shot run: 'all', or the default (echo suppressed for N >= 2), in which case
    # everything except the echo lines must still equal a fresh run that does print
    quiet = case.get("echo") == "default"
    margs = ["--shots=%d" % N] + ([] if quiet else ["--echo=all"])
    ra, eva, qa, _ = core.run_bloch(binary, src, args=margs, env=env, trace=True, timeout=300)
    ca = ra.classify()
    files = {"prog.bloch": src, "multi.stdout": ra.stdout[-6000:], "multi.stderr": ra.stderr[-2000:]}
    if ca[0] not in ("ok", "diag"):
        ctx.violation("crash:%s" % (ca[1] if len(ca) > 1 else ca[0],), "multi-shot run failed: %r" % (ca,), case, files)
        return
    runs = qlang.split_executions(eva)
    ctx.note_case((src, N), sample=dict(shots=N, tail=src[-500:]))
    ctx.count("multi_shot_runs")
    if classical:
        ctx.count("classical_programs_%s" % ("accepted" if ca[0] == "ok" else "stopped_with_diagnostic"))
    singles = []
    for k in range(N if ca[0] == "ok" else len(runs)):
        if classical and singles:
            singles.append(singles[0])      # no draws: one fresh run stands for every k
            continue
        e = dict(env)
        e["BLOCH_VERIF_EXEC_BASE"] = str(k)
        rb, evb, qb, _ = core.run_bloch(binary, src, args=["--shots=1", "--echo=all"], env=e, trace=True, timeout=120)
        singles.append((rb, evb, qb))
        ctx.count("fresh_runs")
    for k, (rb, evb, qb) in enumerate(singles):
        if k >= len(runs):
            ctx.violation("shot:count", "multi-shot run has no execution %d" % k, case, files)
            return
        a, b = digest(runs[k]), digest(qlang.split_executions(evb)[0] if evb else [])
        if quiet:
            a = [x for x in a if x[0] != "echo"]
            b = [x for x in b if x[0] != "echo"]
            ctx.count("shot_comparisons_with_echo_suppressed")
        ctx.count("shot_comparisons")
        if a != b:
            i = next((j for j, (x, y) in enumerate(zip(a, b)) if x != y), min(len(a), len(b)))
            kind = (a[i][0] if i < len(a) else b[i][0]) if (i < len(a) or i < len(b)) else "length"
            kind = {"sim": "sim", "qalloc": "index", "qfree": "index", "echo": "stdout", "tracked": "tracked",
                    "end": "boundaries"}.get(kind, kind)
            ctx.violation("shot:%s" % kind,
                          "shot %d of %d differs from a fresh run at event %d: multi=%r fresh=%r" %
                          (k, N, i, a[i] if i < len(a) else None, b[i] if i < len(b) else None),
                          dict(case, shot=k), dict(files, **{"fresh.stdout": rb.stdout[-3000:]}))
            return
        cb = rb.classify()
        if k == len(runs) - 1 and ca[0] == "diag":
            if cb[0] != "diag" or cb[1:3] != ca[1:3]:
                ctx.violation("shot:error", "shot %d ended with %r in the multi-shot run, %r fresh" % (k, ca, cb),
                              dict(case, shot=k), files)
    if ca[0] == "ok" and singles and qa != singles[-1][2]:
        ctx.violation("shot:qasm", "QASM of the last shot differs from the fresh run's", case,
                      dict(files, **{"multi.qasm": qa or "", "fresh.qasm": singles[-1][2] or ""}))
    # in-process re-execution on one Program, analysed once and twice
    if evalmon and ca[0] == "ok" and not quiet:
        d = core.scratch_dir("re")
        import os
        p = os.path.join(d, "p.bloch")
        with open(p, "w") as f:
            f.write(src)
        outs = []
        for twice in ([], ["analyse-twice"]):
            r = core.run([evalmon, "reexec", p, str(N)] + twice, env=env, timeout=300)
            if r.classify()[0] != "ok":
                ctx.violation("crash:evalmon:%s" % (r.classify()[1] if len(r.classify()) > 1 else r.classify()[0],),
                              "in-process re-execution failed: %r" % (r.classify(),), case,
                              dict(files, **{"evalmon.stderr": r.stderr[-4000:]}))
                return
            outs.append(r.stdout)
        ctx.count("in_process_reexecutions", 2)
        if outs[0] != outs[1]:
            ctx.violation("shot:analyse-twice", "analysing the Program twice changed what its executions print", case,
                          dict(files, **{"once.txt": outs[0][-3000:], "twice.txt": outs[1][-3000:]}))
        # per-execution echo lines must match the CLI's per-shot echo events
        blocks = outs[0].split("BEGIN-EXEC ")[1:]
        for k, blk in enumerate(blocks[:len(runs)]):
            lines = blk.split("\n")[1:]
            echo = []
            for l in lines:
                if l.startswith(("TRACKED", "ERROR", "END-EXEC")):
                    break
                echo.append(l)
            want = [e["text"] for e in runs[k] if e["k"] == "echo"]
            want_lines = "\n".join(want).split("\n") if want else []
            if echo != want_lines:
                ctx.violation("shot:in-process-stdout", "in-process execution %d prints %r, CLI shot printed %r" %
                              (k, echo[:6], want_lines[:6]), dict(case, shot=k), files)
                break


def run(ctx):
    ctx.rule = RULE
    ctx.assumptions = ASSUMPTIONS
    binary = build.build("bloch", "asan")
    evalmon = build.build("evalmon", "asan")
    cases = []
    for i in range(ctx.n(80, 1500)):
        for n in ((2, 5) if ctx.quick() else (2, 8, 32)):
            if (i + n) % 2 == 0 or n == 2:
                cases.append(dict(index=i, n=n))
        if i % 3 == 0:
            cases.append(dict(index=i, n=3, echo="default"))
    for i in range(ctx.n(90, 1500)):
        cases.append(dict(index=i, n=3 if ctx.quick() else (3, 9)[i % 2], family="classical"))
    core.pmap(lambda c: check_case(ctx, binary, evalmon, c), cases)


def replay(ctx, data):
    binary = build.build("bloch", "asan")
    evalmon = build.build("evalmon", "asan")
    c = dict(data["case"])
    c.pop("shot", None)
    check_case(ctx, binary, evalmon, c)
