"""Syntax-tree generator over the documented grammar (docs/grammar.md, casting.md,
bloch_class_system.md, annotations.md) with a renderer that inserts exactly the parentheses the
documented precedence/associativity require (or extra, redundant ones) and an s-expression printer
matching harness/frontdump.cpp (ParenthesizedExpression erased)."""

KEYWORDS = set("""null int long float string char qubit bit boolean true false void function return
if else for while measure final reset default quantum tracked shots class public private protected
static extends abstract virtual override super this import package new constructor destructor
destroy echo""".split())

BINOPS = [  # (op, precedence)  higher binds tighter; all left associative
    ("||", 2), ("&&", 3), ("|", 4), ("^", 5), ("&", 6), ("==", 7), ("!=", 7),
    ("<", 8), (">", 8), ("<=", 8), (">=", 8), ("+", 9), ("-", 9), ("*", 10), ("/", 10), ("%", 10)]
PREC = dict(BINOPS)
P_ASSIGN, P_UNARY, P_POSTFIX, P_PRIMARY = 1, 11, 12, 13
NAMES = ["a", "b", "c", "x", "y", "idx", "total", "q0", "reg", "obj", "val", "n", "flag", "item"]
FUNCS = ["f", "g", "compute", "h", "cx", "helper"]
MEMBERS = ["v", "next", "size", "get", "put", "inner"]
CLASSES = ["Foo", "Box", "Node", "Pair"]
PRIMS = ["int", "long", "float", "char", "string", "bit", "boolean", "qubit"]


def esc(s):
    o = []
    for ch in s:
        c = ord(ch)
        if ch in '"\\':
            o.append("\\" + ch)
        elif c < 0x20 or c >= 0x7f:
            o.append("\\u%04x" % c)
        else:
            o.append(ch)
    return "".join(o)


def sexp(n):
    if n is None:
        return "nil"
    if isinstance(n, str):
        return n
    if isinstance(n, int):
        return str(n)
    tag = n[0]
    if tag == "lit":
        return '(lit %s "%s")' % (n[1], esc(n[2]))
    parts = [tag]
    for c in n[1:]:
        if isinstance(c, list):
            parts.extend(sexp(x) for x in c)
        else:
            parts.append(sexp(c))
    return "(" + " ".join(parts) + ")"


def prec_of(n):
    t = n[0]
    if t == "bin":
        return PREC[n[1]]
    if t in ("assign", "massign", "aassign"):
        return P_ASSIGN
    if t in ("un", "cast"):
        return P_UNARY
    if t in ("post", "call", "idx", "mem"):
        return P_POSTFIX
    if t == "measure":
        return 0
    return P_PRIMARY


class Gen:
    def __init__(self, rng, redundant=False):
        self.r = rng
        self.redundant = redundant

    # ------------------------------------------------------------------ expressions
    def name(self):
        return self.r.choice(NAMES)

    def literal(self):
        k = self.r.randint(0, 8)
        if k == 0:
            return ("lit", "int", str(self.r.choice([0, 1, 2, 7, 42, 1000])))
        if k == 1:
            return ("lit", "float", self.r.choice(["1.5f", "0.0f", "3f", "2.25f"]))
        if k == 2:
            return ("lit", "bit", self.r.choice(["0b", "1b"]))
        if k == 3:
            return ("lit", "boolean", self.r.choice(["true", "false"]))
        if k == 4:
            return ("lit", "string", '"%s"' % self.r.choice(["", "s", "a b", "x+y", "it's"]))
        if k == 5:
            return ("lit", "char", "'%s'" % self.r.choice("az0 +"))
        if k == 6:
            return ("lit", "long", self.r.choice(["5L", "0L", "123L"]))
        return ("lit", "int", str(self.r.randint(0, 99)))

    def type_(self, depth=0, allow_array=True, allow_void=False):
        k = self.r.randint(0, 9)
        if allow_void and k == 0:
            return ("void",)
        if k <= 5:
            t = ("prim", self.r.choice(PRIMS))
        else:
            t = self.named_type(depth)
        if allow_array and self.r.random() < 0.2:
            size = self.r.choice([-1, -1, 0, 3, 16, "n", "expr"])
            if size == "n":
                return ("array", t, ("var", "n"))
            if size == "expr":
                return ("array", t, ("bin", "+", ("var", "n"), ("lit", "int", "1")))
            return ("array", t, size)
        return t

    def named_type(self, depth=0, allow_diamond=False):
        parts = [self.r.choice(CLASSES)]
        if self.r.random() < 0.15:
            parts = [self.r.choice(["pkg", "a.b"])] + parts
        base = ".".join(parts)
        if allow_diamond and self.r.random() < 0.2:
            return ("named", base, "diamond")
        if depth < 2 and self.r.random() < 0.35:
            args = [self.type_(depth + 1, allow_array=False) for _ in range(self.r.randint(1, 2))]
            return ("named", base, args)
        return ("named", base)

    def primary(self, depth):
        k = self.r.randint(0, 11)
        if k <= 3:
            return ("var", self.name())
        if k <= 6:
            return self.literal()
        if k == 7:
            return self.r.choice([("this",), ("null",)])
        if k == 8 and depth > 0:
            return ("new", self.named_type(allow_diamond=True),
                    [self.expr(depth - 1) for _ in range(self.r.randint(0, 2))])
        if k == 9 and depth > 0:
            return ("arr", [self.expr(depth - 1) for _ in range(self.r.randint(0, 3))])
        if k == 10 and depth > 0:
            return ("measure", self.postfix(depth - 1))
        return ("var", self.name())

    def postfix(self, depth):
        e = self.primary(depth)
        if e[0] in ("lit", "null", "arr", "measure"):
            if self.r.random() < 0.8:
                return e
        for _ in range(self.r.randint(0, 2) if depth > 0 else 0):
            k = self.r.randint(0, 3)
            if k == 0:
                e = ("call", e, [self.expr(depth - 1) for _ in range(self.r.randint(0, 2))])
            elif k == 1:
                ix = self.expr(depth - 1)
                if ix[0] == "un" and ix[1] == "-" and ix[2][0] == "lit":
                    ix = ix[2]  # constant negative indices are rejected by design
                e = ("idx", e, ix)
            elif k == 2:
                if e[0] == "lit" and e[1] in ("int", "long"):
                    continue  # `78.get` is lexed as a malformed float literal
                e = ("mem", e, self.r.choice(MEMBERS))
            else:
                if e[0] in ("var", "idx", "mem"):
                    e = ("post", self.r.choice(["++", "--"]), e)
        return e

    def unary(self, depth):
        k = self.r.randint(0, 5)
        if k == 0 and depth > 0:
            return ("un", self.r.choice(["-", "!", "~"]), self.unary(depth - 1))
        if k == 1 and depth > 0:
            # cast operands are restricted to forms on which every reading of the docs agrees
            operand = self.r.choice([
                lambda: ("var", self.name()), self.literal,
                lambda: self.binary(depth - 1, 2), lambda: ("un", "-", ("var", self.name())),
                lambda: ("cast", ("prim", "int"), ("var", self.name()))])()
            return ("cast", ("prim", self.r.choice(["int", "float", "bit", "long", "char"])), operand)
        return self.postfix(depth)

    def binary(self, depth, min_prec=2):
        if depth <= 0 or self.r.random() < 0.25:
            return self.unary(depth)
        ops = [(o, p) for o, p in BINOPS if p >= min_prec]
        op, p = self.r.choice(ops)
        # children of any precedence: the renderer inserts the parentheses the rules require
        left = self.binary(depth - 1) if self.r.random() < 0.7 else self.unary(depth - 1)
        right = self.binary(depth - 1) if self.r.random() < 0.7 else self.unary(depth - 1)
        return ("bin", op, left, right)

    def assignment(self, depth):
        k = self.r.randint(0, 2)
        v = self.expr(depth - 1)
        if k == 0:
            return ("assign", self.name(), v)
        if k == 1:
            return ("massign", self.postfix_simple(depth - 1), self.r.choice(MEMBERS), v)
        ix = self.binary(depth - 1)
        if ix[0] == "un" and ix[1] == "-" and ix[2][0] == "lit":
            ix = ix[2]
        return ("aassign", self.postfix_simple(depth - 1), ix, v)

    def postfix_simple(self, depth):
        e = self.r.choice([("var", self.name()), ("this",)])
        for _ in range(self.r.randint(0, 2)):
            e = ("mem", e, self.r.choice(MEMBERS))
        return e

    def expr(self, depth):
        if depth > 0 and self.r.random() < 0.12:
            return self.assignment(depth)
        return self.binary(depth)

    # ------------------------------------------------------------------ rendering
    def paren(self, s):
        return "(" + s + ")"

    def rx(self, n, min_prec=0, is_target=False):
        """Render n; parenthesise when its precedence is below min_prec."""
        s = self.rx_raw(n)
        p = prec_of(n)
        need = p < min_prec
        if need:
            return self.paren(s)
        if self.redundant and not is_target and self.r.random() < 0.25:
            # redundant parentheses: erased by the AST walker
            return self.paren(s)
        return s

    def rtype(self, t):
        if t[0] == "void":
            return "void"
        if t[0] == "prim":
            return t[1]
        if t[0] == "named":
            if len(t) > 2 and t[2] == "diamond":
                return t[1] + "<>"
            if len(t) > 2:
                return t[1] + "<" + ", ".join(self.rtype(a) for a in t[2]) + ">"
            return t[1]
        if t[0] == "array":
            sz = t[2]
            if isinstance(sz, int):
                return self.rtype(t[1]) + ("[]" if sz < 0 else "[%d]" % sz)
            return self.rtype(t[1]) + "[" + self.rx(sz) + "]"
        raise ValueError(t)

    def args(self, lst):
        return ", ".join(self.rx(a, P_ASSIGN) for a in lst)

    def rx_raw(self, n):
        t = n[0]
        if t == "lit":
            return n[2]
        if t == "var":
            return n[1]
        if t == "this":
            return "this"
        if t == "super":
            return "super"
        if t == "null":
            return "null"
        if t == "bin":
            p = PREC[n[1]]
            # left associative: the right operand needs strictly higher precedence
            return "%s %s %s" % (self.rx(n[2], p), n[1], self.rx(n[3], p + 1))
        if t == "un":
            s = self.rx(n[2], P_UNARY)
            sep = " " if s[:1] in "-+" else ""
            return n[1] + sep + s
        if t == "cast":
            return "(%s)%s%s" % (self.rtype(n[1]), self.r.choice(["", " "]), self.rx_cast_operand(n[2]))
        if t == "post":
            return self.rx(n[2], P_POSTFIX, is_target=True) + n[1]
        if t == "call":
            return "%s(%s)" % (self.rx(n[1], P_POSTFIX), self.args(n[2]))
        if t == "idx":
            return "%s[%s]" % (self.rx(n[1], P_POSTFIX), self.rx(n[2], P_ASSIGN))
        if t == "mem":
            return "%s.%s" % (self.rx(n[1], P_POSTFIX), n[2])
        if t == "new":
            return "new %s(%s)" % (self.rtype(n[1]), self.args(n[2]))
        if t == "arr":
            return "{" + self.args(n[1]) + "}"
        if t == "measure":
            return "measure " + self.rx(n[1], P_POSTFIX)
        if t == "assign":
            return "%s = %s" % (n[1], self.rx(n[2], P_ASSIGN))
        if t == "massign":
            return "%s.%s = %s" % (self.rx(n[1], P_POSTFIX, is_target=True), n[2],
                                   self.rx(n[3], P_ASSIGN))
        if t == "aassign":
            return "%s[%s] = %s" % (self.rx(n[1], P_POSTFIX, is_target=True), self.rx(n[2], P_ASSIGN),
                                    self.rx(n[3], P_ASSIGN))
        raise ValueError(n)

    def rx_cast_operand(self, n):
        # cast operand is a unary-level expression; anything else is parenthesised
        if n[0] in ("var", "lit", "un", "cast"):
            s = self.rx_raw(n)
            return s
        return self.paren(self.rx_raw(n))

    # ------------------------------------------------------------------ statements
    def block(self, depth, n=None):
        return ("block", [self.stmt(depth - 1) for _ in range(self.r.randint(0, 3) if n is None else n)])

    def simple_expr_stmt(self, depth):
        k = self.r.randint(0, 5)
        if k == 0:
            return ("call", ("var", self.r.choice(FUNCS)), [self.expr(depth) for _ in range(self.r.randint(0, 3))])
        if k == 1:
            return ("post", self.r.choice(["++", "--"]), ("var", self.name()))
        if k == 2:
            return ("call", ("mem", self.postfix_simple(depth), self.r.choice(MEMBERS)),
                    [self.expr(depth) for _ in range(self.r.randint(0, 2))])
        if k == 3:
            e = self.assignment(max(depth, 1))
            if e[0] == "assign":
                # `x = e;` at statement level is an assignment statement, not an expression
                return ("massign", ("this",), self.r.choice(MEMBERS), e[2])
            return e
        if k == 4:
            return ("new", self.named_type(), [self.expr(depth)])
        return ("call", ("super",), [self.expr(depth)])

    def cond(self, depth):
        k = self.r.randint(0, 3)
        if k == 0:
            return ("bin", self.r.choice(["<", ">", "==", "<=", "!=", ">="]), self.unary(depth), self.unary(depth))
        if k == 1:
            return ("bin", self.r.choice(["&&", "||"]),
                    ("bin", "<", ("var", self.name()), self.unary(depth)),
                    ("bin", ">", ("var", self.name()), self.unary(depth)))
        if k == 2:
            return ("call", ("var", self.r.choice(FUNCS)), [])
        return self.binary(depth)

    def vardecl(self, depth, in_for=False):
        t = self.type_()
        is_qubit = t == ("prim", "qubit") or (t[0] == "array" and t[1] == ("prim", "qubit"))
        n = ["vardecl"]
        if not in_for and self.r.random() < 0.2:
            n.append("final")
        if is_qubit and self.r.random() < 0.5:
            n.append("tracked")
        n.append(t)
        n.append(self.name())
        if not is_qubit and self.r.random() < 0.7:
            n.append(self.expr(depth))
        return tuple(n)

    def stmt(self, depth):
        k = self.r.randint(0, 15) if depth > 0 else self.r.randint(0, 8)
        if k <= 1:
            return self.vardecl(max(depth, 1))
        if k == 2:
            return ("assignstmt", self.name(), self.expr(max(depth, 1)))
        if k == 3:
            return ("expr", self.simple_expr_stmt(max(depth, 1)))
        if k == 4:
            return ("echo", self.expr(max(depth, 1)))
        if k == 5:
            return ("return", self.expr(max(depth, 1))) if self.r.random() < 0.7 else ("return",)
        if k == 6:
            return self.r.choice([("reset", self.postfix_simple(1)), ("measurestmt", self.postfix_simple(1)),
                                  ("destroy", self.postfix_simple(1))])
        if k == 7:
            return ("expr", self.simple_expr_stmt(1))
        if k == 8:
            return ("assignstmt", self.name(), self.literal())
        if k == 9:
            n = ["if", self.cond(depth), self.block(depth)]
            if self.r.random() < 0.5:
                n.append(self.block(depth))
            return tuple(n)
        if k == 10:
            init = None
            j = self.r.randint(0, 2)
            if j == 0:
                init = self.vardecl(1, in_for=True)
                # `for` initialisers declare a single primitive variable
                init = ("vardecl",) + (("final",) if self.r.random() < 0.25 else ()) + (
                    ("prim", self.r.choice(["int", "float", "long", "boolean", "bit", "char", "string"])),
                    self.name(), self.literal())
            elif j == 1:
                init = ("expr", ("assign", self.name(), self.literal()))
            return ("for", init, self.cond(1), self.r.choice([
                ("assign", "i", ("bin", "+", ("var", "i"), ("lit", "int", "1"))),
                ("post", "++", ("var", self.name()))]), self.block(depth))
        if k == 11:
            return ("while", self.cond(depth), self.block(depth))
        if k == 12:
            return self.block(depth)
        if k == 13:
            c = self.r.choice([("call", ("var", self.r.choice(FUNCS)), []),
                               ("bin", ">", ("var", self.name()), ("lit", "int", "0")),
                               ("lit", "int", "1"), ("var", self.name())])
            return ("ternary", c, self.tern_branch(depth), self.tern_branch(depth))
        if k == 14:
            # qubit q0, q1, ...; (docs: only qubit may be declared with commas) - 2 to 5 names
            n = self.r.choice([2, 2, 3, 3, 4, 5])
            return ("vardecl", ("prim", "qubit"), "qa", "multi") + tuple("q%s" % c for c in "bcde"[:n - 1])
        return ("echo", self.expr(depth))

    def tern_branch(self, depth):
        return self.r.choice([
            lambda: ("echo", self.literal()),
            lambda: ("assignstmt", self.name(), self.literal()),
            lambda: ("expr", self.simple_expr_stmt(1)),
            lambda: self.block(1, 1)])()

    def rs(self, s, ind=0):
        pad = "    " * ind
        t = s[0]
        if t == "vardecl":
            parts = list(s[1:])
            if "multi" in parts:
                return pad + "qubit %s;" % ", ".join(["qa"] + list(s[4:]))
            out = []
            if parts[0] == "final":
                out.append("final")
                parts.pop(0)
            if parts[0] == "tracked":
                out.append("@tracked")
                parts.pop(0)
            out.append(self.rtype(parts[0]))
            out.append(parts[1])
            txt = " ".join(out)
            if len(parts) > 2:
                txt += " = " + self.rx(parts[2], P_ASSIGN)
            return pad + txt + ";"
        if t == "block":
            inner = "\n".join(self.rs(x, ind + 1) for x in s[1])
            return pad + "{\n" + inner + ("\n" if inner else "") + pad + "}"
        if t == "expr":
            return pad + self.rx(s[1], 0, is_target=True) + ";"
        if t == "return":
            return pad + ("return " + self.rx(s[1], P_ASSIGN) + ";" if len(s) > 1 else "return;")
        if t == "if":
            txt = pad + "if (" + self.rx(s[1], P_ASSIGN) + ") " + self.rs(s[2], ind).lstrip()
            if len(s) > 3:
                txt += " else " + self.rs(s[3], ind).lstrip()
            return txt
        if t == "for":
            init = ";" if s[1] is None else self.rs(s[1], 0)
            return pad + "for (%s %s; %s) %s" % (init, self.rx(s[2], P_ASSIGN), self.rx(s[3], P_ASSIGN),
                                               self.rs(s[4], ind).lstrip())
        if t == "while":
            return pad + "while (" + self.rx(s[1], P_ASSIGN) + ") " + self.rs(s[2], ind).lstrip()
        if t == "echo":
            return pad + "echo(" + self.rx(s[1], P_ASSIGN) + ");"
        if t == "reset":
            return pad + "reset " + self.rx(s[1], P_ASSIGN) + ";"
        if t == "measurestmt":
            return pad + "measure " + self.rx(s[1], P_ASSIGN) + ";"
        if t == "destroy":
            return pad + "destroy " + self.rx(s[1], P_ASSIGN) + ";"
        if t == "assignstmt":
            return pad + s[1] + " = " + self.rx(s[2], P_ASSIGN) + ";"
        if t == "ternary":
            return pad + self.rx(s[1], 2, is_target=True) + " ? " + self.rs(s[2], 0) + " : " + self.rs(s[3], 0)
        raise ValueError(s)

    def stmt_sexp(self, s):
        if s[0] == "vardecl" and "multi" in s:
            return " ".join("(vardecl (prim qubit) %s)" % n for n in ["qa"] + list(s[4:]))
        return sexp(s)

    # ------------------------------------------------------------------ declarations
    def params(self):
        return [("param", self.type_(), self.r.choice(["p", "q", "r", "s"]) + str(i))
                for i in range(self.r.randint(0, 3))]

    def rparams(self, ps):
        return ", ".join("%s %s" % (self.rtype(p[1]), p[2]) for p in ps)

    def function(self, name=None):
        name = name or self.r.choice(FUNCS) + str(self.r.randint(0, 99))
        quantum = self.r.random() < 0.3
        shots = self.r.choice([None, None, None, 1, 100])
        ps = self.params()
        ret = self.type_(allow_void=True) if not quantum else self.r.choice([("void",), ("prim", "bit")])
        body = self.block(2)
        node = ["function", name]
        if quantum:
            node.append("quantum")
        if shots is not None:
            node.append("shots=%d" % shots)
        node += [("params", ps), ret, body]
        ann = []
        if quantum:
            ann.append("@quantum")
        if shots is not None:
            ann.append("@shots(%d)" % shots)
        self.r.shuffle(ann)
        src = "".join(a + self.r.choice(["\n", " "]) for a in ann)
        src += "function %s(%s) -> %s %s" % (name, self.rparams(ps), self.rtype(ret), self.rs(body, 0))
        return tuple(node), src

    def klass(self, name=None):
        name = name or self.r.choice(CLASSES) + str(self.r.randint(0, 99))
        is_static = self.r.random() < 0.15
        is_abstract = not is_static and self.r.random() < 0.2
        tparams = []
        if not is_static and self.r.random() < 0.3:
            for tn in self.r.sample(["T", "U", "K"], self.r.randint(1, 2)):
                tparams.append(("tparam", tn, ("named", self.r.choice(CLASSES))) if self.r.random() < 0.3
                               else ("tparam", tn))
        base = None
        if not is_static and self.r.random() < 0.4:
            base = self.named_type()
        node = ["class", name]
        mods = []
        if is_static:
            node.append("static")
            mods.append("static")
        if is_abstract:
            node.append("abstract")
            mods.append("abstract")
        self.r.shuffle(mods)
        node += tparams
        if base:
            node.append(("extends", base))
        hdr = " ".join(mods + ["class", name])
        if tparams:
            hdr += "<" + ", ".join(t[1] + (" extends " + self.rtype(t[2]) if len(t) > 2 else "") for t in tparams) + ">"
        if base:
            hdr += " extends " + self.rtype(base)
        members_src = []
        for _ in range(self.r.randint(0, 5)):
            m, src = self.member(name, is_static, tparams)
            node.append(m)
            members_src.append("    " + src)
        return tuple(node), hdr + " {\n" + "\n".join(members_src) + ("\n" if members_src else "") + "}"

    def member(self, cname, static_class, tparams):
        vis = self.r.choice(["public", "private", "protected"])
        # a member written without a visibility keyword: private in an ordinary class, public in a static one
        omit = self.r.random() < 0.2
        vsrc = [] if omit else [vis]
        if omit:
            vis = "public" if static_class else "private"
        k = self.r.randint(0, 9)
        if static_class:
            k = self.r.choice([0, 1, 2, 5, 6])
        if k <= 2:  # field
            t = self.type_()
            is_qubit = t == ("prim", "qubit") or (t[0] == "array" and t[1] == ("prim", "qubit"))
            static = static_class or self.r.random() < 0.2
            final = self.r.random() < 0.2
            tracked = is_qubit and self.r.random() < 0.5
            fname = self.r.choice(MEMBERS) + str(self.r.randint(0, 9))
            init = None if is_qubit or self.r.random() < 0.5 else self.expr(1)
            node = ["field", vis]
            if static:
                node.append("static")
            if final:
                node.append("final")
            if tracked:
                node.append("tracked")
            node += [t, fname]
            if init is not None:
                node.append(init)
            # legal prefix orders: annotations may precede the visibility or follow the modifiers
            pre = vsrc + (["static"] if static else [])
            if tracked:
                pre = (["@tracked"] + pre) if self.r.random() < 0.5 else (pre + ["@tracked"])
            if final:
                pre.append("final")
            src = " ".join(pre + [self.rtype(t), fname])
            if init is not None:
                src += " = " + self.rx(init, P_ASSIGN)
            return tuple(node), src + ";"
        if k <= 6:  # method
            static = static_class or self.r.random() < 0.2
            virtual = not static and self.r.random() < 0.3
            override = not static and not virtual and self.r.random() < 0.2
            quantum = self.r.random() < 0.25
            mname = self.r.choice(MEMBERS) + str(self.r.randint(0, 9))
            ps = self.params()
            ret = self.r.choice([("void",), ("prim", "bit")]) if quantum else self.type_(allow_void=True)
            nobody = virtual and self.r.random() < 0.3
            body = None if nobody else self.block(2)
            node = ["method", vis]
            mods = []
            if static:
                node.append("static")
                mods.append("static")
            if virtual:
                node.append("virtual")
                mods.append("virtual")
            if override:
                node.append("override")
                mods.append("override")
            if quantum:
                node.append("quantum")
            node += [mname, ("params", ps), ret, body if body is not None else "nobody"]
            pre = vsrc + mods
            if quantum:
                pre = (["@quantum"] + pre) if self.r.random() < 0.5 else (pre + ["@quantum"])
            src = " ".join(pre) + " function %s(%s) -> %s" % (mname, self.rparams(ps), self.rtype(ret))
            src += ";" if nobody else " " + self.rs(body, 1).lstrip()
            return tuple(node), src
        if k <= 8:  # constructor
            ps = self.params()
            default = self.r.random() < 0.4
            ret = cname
            if tparams:
                ret += "<" + ", ".join(t[1] for t in tparams) + ">"
            node = ["ctor", vis, ("params", ps)]
            src = "%s constructor(%s) -> %s" % (vis, self.rparams(ps), ret)
            if default:
                node.append("default")
                src += " = default;"
            else:
                body = self.block(2)
                node.append(body)
                src += " " + self.rs(body, 1).lstrip()
            return tuple(node), src
        default = self.r.random() < 0.4
        node = ["dtor", vis]
        src = "%s destructor() -> void" % vis
        if default:
            node.append("default")
            src += " = default;"
        else:
            body = self.block(2)
            node.append(body)
            src += " " + self.rs(body, 1).lstrip()
        return tuple(node), src

    def program(self):
        pkg = None
        imports = []
        head = []
        if self.r.random() < 0.3:
            pkg = ("package", ["com", "example"])
            head.append("package com.example;")
        for _ in range(self.r.randint(0, 2)):
            if self.r.random() < 0.5:
                imports.append(("import", ["a", "b"], "*"))
                head.append("import a.b.*;")
            else:
                sym = self.r.choice(CLASSES)
                imports.append(("import", ["a", "b"], ":" + sym))
                head.append("import a.b.%s;" % sym)
        classes, functions, statements, body = [], [], [], []
        for _ in range(self.r.randint(1, 5)):
            k = self.r.randint(0, 5)
            if k <= 1:
                n, s = self.klass()
                classes.append(sexp_class(n))
                body.append(s)
            elif k <= 4:
                n, s = self.function()
                functions.append(sexp(n))
                body.append(s)
            else:
                st = self.vardecl(1)
                statements.append(self.stmt_sexp(st))
                body.append(self.rs(st))
        parts = ["program"]
        if pkg:
            parts.append("(package com example)")
        for i in imports:
            parts.append("(import a b %s)" % i[2])
        parts += classes + functions + statements
        return "(" + " ".join(parts) + ")", "\n".join(head + body) + "\n"


def sexp_stmt_list(gen, stmts):
    return " ".join(gen.stmt_sexp(s) for s in stmts)


def sexp_class(n):
    return sexp(n)


def fix_multi(sx):
    """blocks print multi-declarations as two vardecls"""
    import re as _re
    return _re.sub(r"\(vardecl \(prim qubit\) qa multi ((?:q[bcde] ?)+)\)",
                   lambda m: " ".join("(vardecl (prim qubit) %s)" % n for n in ["qa"] + m.group(1).split()), sx)
