"""Typed random programs over the documented classical core, with a reference interpreter written
from docs/language/*.md and docs/casting.md (C07; reused by C09, C10, C12, C18).

A program is a dict: functions (list of Fn), main body; statements/expressions are tuples.  The
reference interpreter returns ('ok', [echo lines]) or ('error', kind, line, detail) or
('keptout', reason) when the program leaves the range where the documentation fixes the result
(integer overflow, '%' on negative operands, non-finite floats, too many steps)."""
import math

INT_MIN, INT_MAX = -2 ** 31, 2 ** 31 - 1
LONG_MIN, LONG_MAX = -2 ** 63, 2 ** 63 - 1
SCALARS = ["int", "long", "float", "bit", "boolean", "string", "char"]
NUM = ("int", "long", "float")
ARRAYS = ["int[]", "long[]", "float[]", "bit[]", "boolean[]", "string[]", "char[]"]


class KeptOut(Exception):
    pass


class RuntimeErr(Exception):
    def __init__(self, kind, line, detail=""):
        Exception.__init__(self, kind)
        self.kind, self.line, self.detail = kind, line, detail


class Return(Exception):
    def __init__(self, value):
        self.value = value


def fmt_float(v):
    if math.isfinite(v) and math.floor(v) == v:
        return "%.1f" % v
    return "%g" % v


def fmt_value(v, t):
    if t == "string":
        return v
    if t == "char":
        return "'%s'" % v
    if t == "float":
        return fmt_float(v)
    if t == "boolean":
        return "true" if v else "false"
    if t in ("int", "long", "bit"):
        return str(v)
    if t.endswith("[]"):
        et = t[:-2]
        if et == "float":
            return "{" + ", ".join("%g" % x for x in v) + "}"
        if et == "string":
            return "{" + ", ".join(v) + "}"
        return "{" + ", ".join(fmt_value(x, et) for x in v) + "}"
    raise ValueError(t)


def promote(a, b):
    if "float" in (a, b):
        return "float"
    if "long" in (a, b):
        return "long"
    return "int"


# ---------------------------------------------------------------------------------------------
# generator

class Fn:
    def __init__(self, name, params, ret, body, recursive=False):
        self.name, self.params, self.ret, self.body, self.recursive = name, params, ret, body, recursive


class Gen:
    def __init__(self, rng, hostile=False, n_funcs=None):
        self.r = rng
        self.hostile = hostile
        self.uid = 0
        self.funcs = []
        self.coverage = set()
        self.n_funcs = rng.randint(0, 4) if n_funcs is None else n_funcs
        self.arrlen = {}

    def fresh(self, pre):
        self.uid += 1
        return "%s%d" % (pre, self.uid)

    # ---- literals
    def lit(self, t):
        r = self.r
        if t == "int":
            k = r.random()
            # a few literals whose products leave the int range (int*int overflow itself is kept out by the
            # reference; long-declared operands must be computed in 64 bits)
            v = r.choice([0, 1, 2, 3, 5, 7, 10, 12, 25, 100]) if k < 0.75 else (
                r.choice([46341, 65536, 100000, 70000]) if k > 0.95 else r.randint(0, 1000))
            return ("lit", "int", v)
        if t == "long":
            v = r.choice([0, 1, 2, 4, 9, 1000, 3000000000, 4294967296, 4294967297])
            return ("lit", "long", v)
        if t == "float":
            return ("lit", "float", r.choice([0.0, 0.5, 1.0, 1.5, 2.0, 2.25, 3.0, 0.125, 10.0, 7.75]))
        if t == "bit":
            return ("lit", "bit", r.randint(0, 1))
        if t == "boolean":
            return ("lit", "boolean", r.random() < 0.5)
        if t == "string":
            return ("lit", "string", r.choice(["", "a", "ab", "x y", "Answer: ", "v=", "#"]))
        if t == "char":
            return ("lit", "char", r.choice("abcxyz09"))
        raise ValueError(t)

    def nonzero(self, t):
        while True:
            l = self.lit(t)
            if l[2] != 0:
                return l

    def vars_of(self, env, t):
        return [n for n, vt in env.items() if vt == t]

    def pure_num(self, env, t, depth):
        """Side-effect-free, error-free numeric expression (used under && / ||)."""
        r = self.r
        if depth <= 0 or r.random() < 0.4:
            vs = self.vars_of(env, t)
            if vs and r.random() < 0.7:
                return ("var", r.choice(vs), t)
            return self.lit(t)
        op = r.choice(["+", "-", "*"])
        return ("bin", op, self.pure_num(env, t, depth - 1), self.pure_num(env, t, depth - 1), t)

    def expr(self, env, t, depth, pure=False):
        r = self.r
        if t.endswith("[]"):
            vs = self.vars_of(env, t)
            if vs:
                return ("var", r.choice(vs), t)
            return None
        if depth <= 0 or r.random() < 0.25:
            vs = self.vars_of(env, t)
            if vs and r.random() < 0.65:
                return ("var", r.choice(vs), t)
            return self.lit(t)
        k = r.random()
        if t in NUM:
            if k < 0.5:
                if t == "float":
                    lt, rt = r.choice([("float", "float"), ("float", "int"), ("int", "float"),
                                       ("long", "float"), ("float", "long")])
                elif t == "long":
                    lt, rt = r.choice([("long", "long"), ("long", "int"), ("int", "long")])
                else:
                    lt, rt = "int", "int"
                op = r.choice(["+", "-", "*", "+", "-"])
                self.coverage.add((op, lt, rt))
                return ("bin", op, self.expr(env, lt, depth - 1, pure), self.expr(env, rt, depth - 1, pure), t)
            if k < 0.6 and t == "float" and not pure:
                lt, rt = r.choice(NUM), r.choice(NUM)
                self.coverage.add(("/", lt, rt))
                den = self.expr(env, rt, depth - 1)
                if r.random() < 0.75:
                    den = self.nonzero(rt)
                return ("bin", "/", self.expr(env, lt, depth - 1), den, "float")
            if k < 0.68 and t in ("int", "long") and not pure:
                lt, rt = ("int", "int") if t == "int" else r.choice([("long", "int"), ("int", "long"), ("long", "long")])
                self.coverage.add(("%", lt, rt))
                den = self.expr(env, rt, depth - 1)
                if r.random() < 0.75:
                    den = self.nonzero(rt)
                return ("bin", "%", self.expr(env, lt, depth - 1), den, t)
            if k < 0.76:
                self.coverage.add(("neg", t))
                return ("un", "-", self.expr(env, t, depth - 1, pure), t)
            if k < 0.88:
                src = r.choice([x for x in ("int", "long", "float", "bit") if x != t])
                self.coverage.add(("cast", t, src))
                return ("cast", t, self.expr(env, src, depth - 1, pure))
            if k < 0.96 and not pure:
                c = self.call(env, t, depth)
                if c:
                    return c
            if not pure:
                ix = self.index(env, t, depth)
                if ix:
                    return ix
            return self.lit(t)
        if t == "boolean":
            if k < 0.4:
                nt1, nt2 = r.choice(NUM), r.choice(NUM)
                op = r.choice(["<", ">", "<=", ">=", "==", "!="])
                self.coverage.add((op, nt1, nt2))
                return ("bin", op, self.expr(env, nt1, depth - 1, pure), self.expr(env, nt2, depth - 1, pure), "boolean")
            if k < 0.66:
                op = r.choice(["&&", "||"])
                lt, rt = r.choice(["boolean", "bit"]), r.choice(["boolean", "bit"])
                self.coverage.add((op, lt, rt))
                # both operands are evaluated (no short-circuit guarantee in the docs): keep pure
                return ("bin", op, self.expr(env, lt, depth - 1, True), self.expr(env, rt, depth - 1, True), "boolean")
            if k < 0.72:
                ot = r.choice(["boolean", "bit"])
                self.coverage.add(("!", ot))
                return ("un", "!", self.expr(env, ot, depth - 1, pure), "boolean")
            if k < 0.82:
                op = r.choice(["==", "!="])
                ot = r.choice(["string", "char", "boolean", "bit"])
                ot2 = ot if ot in ("string", "char") else r.choice(["boolean", "bit"])
                self.coverage.add((op, ot, ot2))
                return ("bin", op, self.expr(env, ot, depth - 1, pure), self.expr(env, ot2, depth - 1, pure), "boolean")
            if not pure:
                ix = self.index(env, t, depth)
                if ix:
                    return ix
            return self.lit(t)
        if t == "bit":
            if k < 0.35:
                op = r.choice(["&", "|", "^"])
                self.coverage.add((op, "bit", "bit"))
                return ("bin", op, self.expr(env, "bit", depth - 1, pure), self.expr(env, "bit", depth - 1, pure), "bit")
            if k < 0.5:
                self.coverage.add(("~", "bit"))
                return ("un", "~", self.expr(env, "bit", depth - 1, pure), "bit")
            if k < 0.7:
                src = r.choice(["int", "long", "float"])
                self.coverage.add(("cast", "bit", src))
                return ("cast", "bit", self.expr(env, src, depth - 1, pure))
            if not pure:
                ix = self.index(env, t, depth)
                if ix:
                    return ix
            return self.lit(t)
        if t == "string":
            if k < 0.6:
                ot = r.choice(["int", "long", "float", "bit", "string", "boolean", "string"])
                self.coverage.add(("concat", ot))
                a, b = self.expr(env, "string", depth - 1, pure), self.expr(env, ot, depth - 1, pure)
                if r.random() < 0.3:
                    a, b = b, a
                return ("bin", "+", a, b, "string")
            if not pure:
                ix = self.index(env, t, depth)
                if ix:
                    return ix
            return self.lit(t)
        if t == "char":
            if not pure:
                ix = self.index(env, t, depth)
                if ix:
                    return ix
            return self.lit(t)
        raise ValueError(t)

    def index(self, env, t, depth):
        arrs = self.vars_of(env, t + "[]")
        if not arrs:
            return None
        name = self.r.choice(arrs)
        it = self.r.choice(["int", "int", "int", "long"])
        n = self.arrlen.get(name, 1)
        q = self.r.random()
        if q < 0.8:
            ix = ("lit", it, self.r.randint(0, max(0, n - 1)))
        elif q < 0.9:
            ix = ("lit", it, n + self.r.randint(0, 2))     # deliberately out of range
        else:
            ix = self.expr(env, it, depth - 1, True)
        self.coverage.add(("index", t, it))
        return ("idx", name, ix, t)

    def call(self, env, t, depth):
        cands = [f for f in self.funcs if f.ret == t]
        if not cands:
            return None
        f = self.r.choice(cands)
        args = []
        for pn, pt in f.params:
            if f.recursive and pn == f.params[0][0]:
                args.append(("lit", "int", self.r.randint(0, 6)))
                continue
            at = pt
            if pt == "long" and self.r.random() < 0.4:
                at = "int"  # documented int -> long widening in calls
            e = self.expr(env, at, max(depth - 1, 0), True)
            if e is None:
                return None
            args.append(e)
        self.coverage.add(("call", t))
        return ("call", f.name, args, t)

    # ---- statements
    def stmts(self, env, n, depth, ret=None, protected=()):
        out = []
        for _ in range(n):
            s = self.stmt(env, depth, ret, protected)
            if s:
                out.extend(s if isinstance(s, list) else [s])
        return out

    def arr_elem(self, env, et):
        """Element of a typed array initialiser.  docs/language/semantics.md: int[] accepts int, bit
        and float (truncated); float[] accepts float, int and bit (promoted)."""
        r = self.r
        if et in ("int", "float") and r.random() < 0.5:
            src = r.choice({"int": ["int", "bit", "bit", "float"], "float": ["float", "int", "bit"]}[et])
            e = self.expr(env, src, 1, pure=True) if r.random() < 0.6 else self.lit(src)
            if e is not None:
                self.coverage.add(("arrinit", et, src))
                return e
        return self.lit(et)

    def decl(self, env, t=None):
        r = self.r
        t = t or r.choice(SCALARS + SCALARS + ARRAYS)
        name = self.fresh("v")
        if t.endswith("[]"):
            et = t[:-2]
            form = r.random()
            if form < 0.6:
                n = r.randint(1, 4)
                self.arrlen[name] = n
                s = ("declarr", t, name, [self.arr_elem(env, et) for _ in range(n)])
            elif form < 0.8:
                n = r.randint(1, 4)
                self.arrlen[name] = n
                s = ("declsized", t, name, n, None)
            else:
                cn = self.fresh("n")
                size = r.randint(1, 4)
                self.arrlen[name] = size
                env[cn] = "final int"
                s = [("decl", "int", cn, ("lit", "int", size), True), ("declsized", t, name, size, cn)]
            env[name] = t
            return s
        final = r.random() < 0.12
        e = self.expr(env, t, 3)
        if t == "long" and r.random() < 0.3:
            e = self.expr(env, "int", 3)   # int widens to long
            env[name] = t
            if r.random() < 0.6:
                # ... and from then on the variable is 64-bit whatever it was initialised with
                big = ("lit", "int", r.choice([65536, 100000, 2147483647]))
                use = r.choice([("bin", "*", ("var", name, "long"), big, "long"),
                                ("bin", "*", ("var", name, "long"), ("var", name, "long"), "long"),
                                ("bin", "+", ("bin", "*", big, ("var", name, "long"), "long"), ("var", name, "long"), "long")])
                self.coverage.add(("widened-long-use",))
                return [("decl", t, name, e, final), ("echo", use, "long")]
        env[name] = t
        return ("decl", t, name, e, final)

    def stmt(self, env, depth, ret, protected):
        r = self.r
        k = r.random()
        mutable = [n for n, t in env.items() if n not in protected and not t.startswith("final")
                   and n not in self.finals]
        if k < 0.22 or not env:
            s = self.decl(env)
            for x in (s if isinstance(s, list) else [s]):
                if x[0] == "decl" and x[4]:
                    self.finals.add(x[2])
            return s
        if k < 0.42:
            t = r.choice(["int", "long", "float", "bit", "boolean", "string", "string", "float", "int"])
            e = self.expr(env, t, 4)
            return ("echo", e, t)
        if k < 0.47:
            arrs = [n for n, t in env.items() if t.endswith("[]") and t[:-2] not in ("float", "char")]
            if arrs:
                n = r.choice(arrs)
                return ("echo", ("var", n, env[n]), env[n])
        if k < 0.58:
            cands = [n for n in mutable if not env[n].endswith("[]")]
            if cands:
                n = r.choice(cands)
                if env[n] == "long" and r.random() < 0.4:
                    # an int value assigned to a long variable is widened at the assignment as well
                    big = ("lit", "int", r.choice([65536, 100000, 2147483647]))
                    self.coverage.add(("widened-long-assign",))
                    return [("assign", n, self.expr(env, "int", 2)),
                            ("echo", ("bin", "*", ("var", n, "long"), big, "long"), "long")]
                return ("assign", n, self.expr(env, env[n], 3))
        if k < 0.64:
            cands = [n for n in mutable if env[n].endswith("[]")]
            if cands:
                n = r.choice(cands)
                et = env[n][:-2]
                ln = self.arrlen.get(n, 1)
                ix = ("lit", "int", r.randint(0, max(0, ln - 1))) if r.random() < 0.85 else \
                    self.expr(env, "int", 2, True)
                return ("aassign", n, ix, self.expr(env, et, 2))
        if k < 0.68:
            cands = [n for n in mutable if env[n].endswith("[]")]
            others = [n for n, t in env.items() if t.endswith("[]")]
            if cands and others:
                n = r.choice(cands)
                same = [o for o in others if env[o] == env[n] and o != n]
                if same:
                    o = r.choice(same)
                    self.arrlen[n] = min(self.arrlen.get(n, 1), self.arrlen.get(o, 1))
                    return ("assign", n, ("var", o, env[n]))  # array copy (value semantics)
        if k < 0.72:
            cands = [n for n in mutable if env[n] in ("int", "long")]
            if cands:
                n = r.choice(cands)
                if r.random() < 0.5:
                    return ("poststmt", r.choice(["++", "--"]), n)
                nv = self.fresh("v")
                env[nv] = env[n]
                return ("decl", env[n], nv, ("post", r.choice(["++", "--"]), n, env[n]), False)
        if depth > 0 and k < 0.80:
            cond = self.expr(env, r.choice(["boolean", "boolean", "bit"]), 3)
            inner = dict(env)
            th = self.stmts(inner, r.randint(1, 3), depth - 1, ret, protected)
            el = None
            if r.random() < 0.5:
                inner2 = dict(env)
                el = self.stmts(inner2, r.randint(1, 2), depth - 1, ret, protected)
            return ("if", cond, th, el)
        if depth > 0 and k < 0.86:
            iv = self.fresh("i")
            n = r.randint(0, 4)
            inner = dict(env)
            inner[iv] = "int"
            body = self.stmts(inner, r.randint(1, 3), depth - 1, ret, tuple(protected) + (iv,))
            form = r.choice(["for", "for++", "while", "forcall"])
            if form == "forcall":
                self.need_step = True
            return ("loop", form, iv, n, body)
        if depth > 0 and k < 0.90:
            cond = self.expr(env, "boolean", 2)
            a = ("echo", self.expr(env, "int", 2), "int")
            b = ("echo", self.expr(env, "string", 2), "string")
            return ("tern", cond, a, b)
        if k < 0.94 and ret is not None and depth < 2:
            cond = self.expr(env, "boolean", 2)
            return ("if", cond, [("ret", self.expr(env, ret, 2))], None)
        if k < 0.97:
            procs = [f for f in self.funcs if f.ret == "void"]
            if procs:
                f = r.choice(procs)
                args = [self.expr(env, pt, 2, True) for _, pt in f.params]
                if all(a is not None for a in args):
                    return ("callstmt", f.name, args)
        if depth > 0:
            inner = dict(env)
            return ("block", self.stmts(inner, r.randint(1, 3), depth - 1, ret, protected))
        return ("echo", self.expr(env, "int", 2), "int")

    def function(self):
        r = self.r
        name = self.fresh("fn")
        ret = r.choice(["int", "int", "long", "float", "boolean", "bit", "string", "void", "int[]"])
        params = []
        env = {}
        for _ in range(r.randint(0, 3)):
            pt = r.choice(["int", "int", "long", "float", "boolean", "bit", "string", "int[]", "float[]"])
            # parameter names repeat from function to function (pa, pb, ...): a callee's names are the caller's
            # names too, and only lexical scoping keeps them apart
            pn = "p" + "abcdef"[len(params)]
            params.append((pn, pt))
            env[pn] = pt
        self.finals = set()
        if ret == "int[]" and not self.vars_of(env, "int[]"):
            pn = "p" + "abcdef"[len(params)]
            params.append((pn, "int[]"))
            env[pn] = "int[]"
        body = self.stmts(env, r.randint(1, 4), 2, None if ret == "void" else ret)
        if ret != "void" and not ret.endswith("[]") and r.random() < 0.35:
            # early return from inside a loop whose increment clause is itself a call
            iv = self.fresh("i")
            n = r.randint(1, 4)
            form = r.choice(["forcall", "for", "while", "forcall"])
            if form == "forcall":
                self.need_step = True
            hit = r.randint(0, n)
            inner = dict(env)
            inner[iv] = "int"
            body.append(("loop", form, iv, n, [
                ("if", ("bin", "==", ("var", iv, "int"), ("lit", "int", hit), "boolean"),
                 [("ret", self.expr(inner, ret, 2))], None)]))
        if ret == "void":
            body.append(("echo", self.expr(env, "string", 2), "string"))
        else:
            body.append(("ret", self.expr(env, ret, 3)))
        f = Fn(name, params, ret, body)
        self.funcs.append(f)

    def recursive_function(self):
        name = self.fresh("rec")
        kind = self.r.choice(["fact", "fib", "sumdown"])
        n = self.fresh("p")
        if kind == "fact":
            body = [("if", ("bin", "<=", ("var", n, "int"), ("lit", "int", 1), "boolean"),
                     [("ret", ("lit", "long", 1))], None),
                    ("ret", ("bin", "*", ("var", n, "int"),
                             ("call", name, [("bin", "-", ("var", n, "int"), ("lit", "int", 1), "int")], "long"),
                             "long"))]
            f = Fn(name, [(n, "int")], "long", body, True)
        elif kind == "fib":
            body = [("if", ("bin", "<", ("var", n, "int"), ("lit", "int", 2), "boolean"),
                     [("ret", ("var", n, "int"))], None),
                    ("ret", ("bin", "+",
                             ("call", name, [("bin", "-", ("var", n, "int"), ("lit", "int", 1), "int")], "int"),
                             ("call", name, [("bin", "-", ("var", n, "int"), ("lit", "int", 2), "int")], "int"),
                             "int"))]
            f = Fn(name, [(n, "int")], "int", body, True)
        else:
            acc = self.fresh("p")
            body = [("if", ("bin", "==", ("var", n, "int"), ("lit", "int", 0), "boolean"),
                     [("ret", ("var", acc, "float"))], None),
                    ("ret", ("call", name, [("bin", "-", ("var", n, "int"), ("lit", "int", 1), "int"),
                                            ("bin", "+", ("var", acc, "float"), ("var", n, "int"), "float")],
                             "float"))]
            f = Fn(name, [(n, "int"), (acc, "float")], "float", body, True)
        self.funcs.append(f)

    def program(self):
        for _ in range(self.n_funcs):
            if self.r.random() < 0.25:
                self.recursive_function()
            else:
                self.function()
        self.finals = set()
        env = {}
        head, tail = [], []
        if self.r.random() < 0.6:
            # main owns variables spelled like the parameters of the functions it calls
            for nm, t in (("pa", "int"), ("pb", self.r.choice(["int", "float", "string"])), ("pc", "long")):
                if self.r.random() < 0.7:
                    env[nm] = t
                    head.append(("decl", t, nm, self.lit(t), False))
                    tail.append(("echo", ("var", nm, t), t))
        main = head + self.stmts(env, self.r.randint(4, 12), 2) + tail
        return dict(funcs=self.funcs, main=main, need_step=getattr(self, "need_step", False))


# ---------------------------------------------------------------------------------------------
# rendering

def flt(v):
    s = repr(float(v))
    if "e" in s:
        s = "%f" % v
    return s + "f"


MINIMAL = [False]
PREC = {"||": 2, "&&": 3, "|": 4, "^": 5, "&": 6, "==": 7, "!=": 7, "<": 8, ">": 8, "<=": 8, ">=": 8,
        "+": 9, "-": 9, "*": 10, "/": 10, "%": 10}


def rx_min(e, min_prec=0):
    """Render with only the parentheses the documented precedence/associativity require."""
    k = e[0]
    if k == "bin":
        p = PREC[e[1]]
        s = "%s %s %s" % (rx_min(e[2], p), e[1], rx_min(e[3], p + 1))
        return "(" + s + ")" if p < min_prec else s
    if k == "un":
        inner = rx_min(e[2], 11)
        s = e[1] + (" " if inner.startswith("-") else "") + inner
        return "(" + s + ")" if 11 < min_prec else s
    if k == "cast":
        inner = rx_min(e[2], 0)
        s = "(%s)(%s)" % (e[1], inner)
        return "(" + s + ")" if 11 < min_prec else s
    if k == "call":
        return "%s(%s)" % (e[1], ", ".join(rx_min(a) for a in e[2]))
    if k == "idx":
        inner = rx_min(e[2])
        if inner.startswith("-"):
            inner = "(" + inner + ")"   # a constant negative index is a parse-time error by design
        return "%s[%s]" % (e[1], inner)
    if k == "lit" and e[1] in ("int", "long", "float") and e[2] < 0:
        return "(" + rx_full(e) + ")"
    return rx_full(e)


def rx(e):
    if MINIMAL[0]:
        return rx_min(e)
    return rx_full(e)


def rx_full(e):
    k = e[0]
    if k == "lit":
        t, v = e[1], e[2]
        if t == "int":
            return str(v)
        if t == "long":
            return "%dL" % v
        if t == "float":
            return flt(v)
        if t == "bit":
            return "%db" % v
        if t == "boolean":
            return "true" if v else "false"
        if t == "string":
            return '"%s"' % v
        if t == "char":
            return "'%s'" % v
    if k == "var":
        return e[1]
    if k == "bin":
        return "(%s %s %s)" % (rx_full(e[2]), e[1], rx_full(e[3]))
    if k == "un":
        return "(%s%s)" % (e[1], rx_full(e[2]))
    if k == "cast":
        # the operand is always parenthesised: whether a cast applies to a whole postfix chain
        # ((int)f(x), (int)a[0]) is not fixed by the documentation
        inner = rx_full(e[2])
        if not inner.startswith("("):
            inner = "(" + inner + ")"
        return "((%s)%s)" % (e[1], inner)
    if k == "call":
        return "%s(%s)" % (e[1], ", ".join(rx_full(a) for a in e[2]))
    if k == "idx":
        return "%s[%s]" % (e[1], rx_full(e[2]))
    if k == "post":
        return "%s%s" % (e[2], e[1])
    raise ValueError(e)


class Renderer:
    def __init__(self, rename=None):
        self.lines = []
        self.line_of = {}
        self.rename = rename or {}

    def emit(self, ind, text, node=None):
        self.lines.append("    " * ind + text)
        if node is not None:
            self.line_of[id(node)] = len(self.lines)

    def tname(self, t, name, size=None):
        if t.endswith("[]"):
            return "%s[%s] %s" % (t[:-2], "" if size is None else size, name)
        return "%s %s" % (t, name)

    def stmt(self, s, ind):
        k = s[0]
        if k == "decl":
            self.emit(ind, "%s%s = %s;" % ("final " if s[4] else "", self.tname(s[1], s[2]), rx(s[3])), s)
        elif k == "declarr":
            self.emit(ind, "%s = {%s};" % (self.tname(s[1], s[2]), ", ".join(rx(x) for x in s[3])), s)
        elif k == "declsized":
            self.emit(ind, "%s;" % self.tname(s[1], s[2], s[4] if s[4] else s[3]), s)
        elif k == "echo":
            self.emit(ind, "echo(%s);" % rx(s[1]), s)
        elif k == "assign":
            self.emit(ind, "%s = %s;" % (s[1], rx(s[2])), s)
        elif k == "aassign":
            ix = rx(s[2])
            if ix.startswith("-"):
                ix = "(" + ix + ")"
            self.emit(ind, "%s[%s] = %s;" % (s[1], ix, rx(s[3])), s)
        elif k == "poststmt":
            self.emit(ind, "%s%s;" % (s[2], s[1]), s)
        elif k == "ret":
            self.emit(ind, "return %s;" % rx(s[1]), s)
        elif k == "callstmt":
            self.emit(ind, "%s(%s);" % (s[1], ", ".join(rx(a) for a in s[2])), s)
        elif k == "if":
            self.emit(ind, "if (%s) {" % rx(s[1]), s)
            for t in s[2]:
                self.stmt(t, ind + 1)
            if s[3] is not None:
                self.emit(ind, "} else {")
                for t in s[3]:
                    self.stmt(t, ind + 1)
            self.emit(ind, "}")
        elif k == "loop":
            _, form, iv, n, body = s
            if form == "while":
                self.emit(ind, "int %s = 0;" % iv, s)
                self.emit(ind, "while (%s < %d) {" % (iv, n))
                for t in body:
                    self.stmt(t, ind + 1)
                self.emit(ind + 1, "%s = %s + 1;" % (iv, iv))
                self.emit(ind, "}")
            else:
                inc = {"for": "%s = %s + 1" % (iv, iv), "for++": "%s++" % iv,
                       "forcall": "%s = stepUp(%s)" % (iv, iv)}[form]
                self.emit(ind, "for (int %s = 0; %s < %d; %s) {" % (iv, iv, n, inc), s)
                for t in body:
                    self.stmt(t, ind + 1)
                self.emit(ind, "}")
        elif k == "tern":
            self.emit(ind, "%s ? echo(%s); : echo(%s);" % (rx(s[1]), rx(s[2][1]), rx(s[3][1])), s)
        elif k == "block":
            self.emit(ind, "{", s)
            for t in s[1]:
                self.stmt(t, ind + 1)
            self.emit(ind, "}")
        else:
            raise ValueError(s)

    def function(self, f):
        ps = ", ".join("%s %s" % (pt, pn) for pn, pt in f.params)
        self.emit(0, "function %s(%s) -> %s {" % (f.name, ps, f.ret), f)
        for s in f.body:
            self.stmt(s, 1)
        self.emit(0, "}")

    def program(self, prog, order=None):
        funcs = list(prog["funcs"])
        items = [("f", f) for f in funcs] + [("m", None)]
        if order is not None:
            items = [items[i] for i in order]
        if prog.get("need_step"):
            self.emit(0, "function stepUp(int s) -> int {")
            self.emit(1, "int nexts = s + 1;")
            self.emit(1, "return nexts;")
            self.emit(0, "}")
        for kind, f in items:
            if kind == "f":
                self.function(f)
            else:
                self.emit(0, "function main() -> void {")
                for s in prog["main"]:
                    self.stmt(s, 1)
                self.emit(0, "}")
        return "\n".join(self.lines) + "\n"


def render(prog, order=None, minimal=False):
    r = Renderer()
    MINIMAL[0] = minimal
    try:
        src = r.program(prog, order)
    finally:
        MINIMAL[0] = False
    return src, r.line_of


# ---------------------------------------------------------------------------------------------
# reference interpreter

class Interp:
    def __init__(self, prog, line_of, max_steps=200000):
        self.prog = prog
        self.funcs = {f.name: f for f in prog["funcs"]}
        self.line_of = line_of
        self.out = []
        self.steps = 0
        self.max_steps = max_steps
        self.depth = 0
        self.line = 0

    def tick(self):
        self.steps += 1
        if self.steps > self.max_steps:
            raise KeptOut("too many steps")

    def check_range(self, v, t):
        if t == "int" and not (INT_MIN <= v <= INT_MAX):
            raise KeptOut("int overflow")
        if t == "long" and not (LONG_MIN <= v <= LONG_MAX):
            raise KeptOut("long overflow")
        if t == "float" and not (math.isfinite(v) and abs(v) < 1e15):
            raise KeptOut("float out of comfortable range")
        return v

    def ev(self, e, env):
        self.tick()
        k = e[0]
        if k == "lit":
            return e[2]
        if k == "var":
            v = env[e[1]]
            return list(v) if isinstance(v, list) else v
        if k == "bin":
            op = e[1]
            a = self.ev(e[2], env)
            b = self.ev(e[3], env)
            t = e[4]
            lt, rt = type_of(e[2]), type_of(e[3])
            if op in ("+", "-", "*") and t in NUM:
                if t == "float":
                    a, b = float(a), float(b)
                v = a + b if op == "+" else a - b if op == "-" else a * b
                return self.check_range(v, t)
            if op == "+" and t == "string":
                return (fmt_value(a, lt) if lt != "string" else a) + (fmt_value(b, rt) if rt != "string" else b)
            if op == "/":
                if float(b) == 0.0:
                    raise RuntimeErr("division by zero", self.line)
                return self.check_range(float(a) / float(b), "float")
            if op == "%":
                if b == 0:
                    raise RuntimeErr("modulo by zero", self.line)
                if a < 0 or b < 0:
                    raise KeptOut("% on negative operands")
                return a % b
            if op in ("<", ">", "<=", ">=", "==", "!="):
                if lt in NUM and rt in NUM and "float" in (lt, rt):
                    a, b = float(a), float(b)
                if lt in ("boolean", "bit"):
                    a, b = bool(a), bool(b)
                return {"<": a < b, ">": a > b, "<=": a <= b, ">=": a >= b, "==": a == b, "!=": a != b}[op]
            if op == "&&":
                return bool(a) and bool(b)
            if op == "||":
                return bool(a) or bool(b)
            if op == "&":
                return a & b
            if op == "|":
                return a | b
            if op == "^":
                return a ^ b
            raise ValueError(e)
        if k == "un":
            v = self.ev(e[2], env)
            if e[1] == "-":
                return self.check_range(-v, e[3])
            if e[1] == "!":
                return not bool(v)
            if e[1] == "~":
                return 0 if v else 1
        if k == "cast":
            v = self.ev(e[2], env)
            src, t = type_of(e[2]), e[1]
            if t in ("int", "long"):
                if src == "float":
                    if not math.isfinite(v) or abs(v) >= 2 ** 31:
                        raise KeptOut("float->int out of range")
                    v = int(v)  # truncation toward zero
                else:
                    v = int(v)
                if t == "int" and not (INT_MIN <= v <= INT_MAX):
                    raise KeptOut("narrowing long->int loses bits")
                return v
            if t == "float":
                return float(v)
            if t == "bit":
                return 1 if v != 0 else 0
        if k == "call":
            f = self.funcs[e[1]]
            args = [self.ev(a, env) for a in e[2]]
            return self.call(f, args)
        if k == "idx":
            arr = env[e[1]]
            ix = self.ev(e[2], env)
            if ix < 0 or ix >= len(arr):
                raise RuntimeErr("index out of bounds", self.line, "index %d out of bounds for length %d" % (ix, len(arr)))
            return arr[ix]
        if k == "post":
            old = env[e[2]]
            env[e[2]] = self.check_range(old + (1 if e[1] == "++" else -1), e[3])
            return old
        raise ValueError(e)

    def call(self, f, args):
        self.depth += 1
        if self.depth > 60:
            raise KeptOut("recursion too deep")
        env = {}
        for (pn, pt), a in zip(f.params, args):
            env[pn] = list(a) if isinstance(a, list) else a
        saved = self.line
        try:
            self.run(f.body, env)
        except Return as r:
            self.depth -= 1
            self.line = saved
            return r.value
        self.depth -= 1
        self.line = saved
        return None

    def run(self, stmts, env):
        for s in stmts:
            self.st(s, env)

    def st(self, s, env):
        self.tick()
        self.line = self.line_of.get(id(s), self.line)
        k = s[0]
        if k == "decl":
            env[s[2]] = self.ev(s[3], env)
        elif k == "declarr":
            et = s[1][:-2]
            vals = []
            for x in s[3]:
                v = self.ev(x, env)
                src = type_of(x)
                if et == "int" and src == "float":
                    if not math.isfinite(v) or abs(v) >= 2 ** 31:
                        raise KeptOut("float element of an int[] initialiser out of range")
                    v = int(v)
                elif et == "int" and src == "bit":
                    v = int(v)
                elif et == "float" and src in ("int", "bit"):
                    if abs(v) > 2 ** 24:
                        raise KeptOut("int element of a float[] initialiser not exact in float32")
                    v = float(v)
                vals.append(v)
            env[s[2]] = vals
        elif k == "declsized":
            et = s[1][:-2]
            d = {"int": 0, "long": 0, "float": 0.0, "bit": 0, "boolean": False, "string": "", "char": "\0"}[et]
            env[s[2]] = [d] * s[3]
        elif k == "echo":
            v = self.ev(s[1], env)
            self.out.append(fmt_value(v, s[2]))
        elif k == "assign":
            v = self.ev(s[2], env)
            env[s[1]] = list(v) if isinstance(v, list) else v
        elif k == "aassign":
            ix = self.ev(s[2], env)
            v = self.ev(s[3], env)
            arr = env[s[1]]
            if ix < 0 or ix >= len(arr):
                raise RuntimeErr("index out of bounds", self.line, "index %d out of bounds for length %d" % (ix, len(arr)))
            arr[ix] = v
        elif k == "poststmt":
            t = "int"
            env[s[2]] = self.check_range(env[s[2]] + (1 if s[1] == "++" else -1), "long")
        elif k == "ret":
            raise Return(self.ev(s[1], env))
        elif k == "callstmt":
            f = self.funcs[s[1]]
            self.call(f, [self.ev(a, env) for a in s[2]])
        elif k == "if":
            c = self.ev(s[1], env)
            if c:
                self.run(s[2], dict_scope(env))
            elif s[3] is not None:
                self.run(s[3], dict_scope(env))
        elif k == "loop":
            _, form, iv, n, body = s
            env[iv] = 0
            while env[iv] < n:
                self.run(body, dict_scope(env))
                env[iv] += 1
                self.tick()
            if form != "while":
                del env[iv]
        elif k == "tern":
            c = self.ev(s[1], env)
            self.st(s[2] if c else s[3], env)
        elif k == "block":
            self.run(s[1], dict_scope(env))
        else:
            raise ValueError(s)

    def execute(self):
        try:
            self.run(self.prog["main"], {})
        except RuntimeErr as e:
            return ("error", e.kind, e.line, e.detail)
        except KeptOut as e:
            return ("keptout", str(e))
        except RecursionError:
            return ("keptout", "python recursion")
        return ("ok", self.out)


class dict_scope(dict):
    """Inner scope sharing the outer variables: writes to existing names go through."""

    def __init__(self, outer):
        dict.__init__(self)
        self.outer = outer

    def __getitem__(self, k):
        if dict.__contains__(self, k):
            return dict.__getitem__(self, k)
        return self.outer[k]

    def __setitem__(self, k, v):
        if not dict.__contains__(self, k) and k in self.outer:
            self.outer[k] = v
        else:
            dict.__setitem__(self, k, v)

    def __contains__(self, k):
        return dict.__contains__(self, k) or k in self.outer

    def __delitem__(self, k):
        if dict.__contains__(self, k):
            dict.__delitem__(self, k)


def type_of(e):
    k = e[0]
    if k == "lit":
        return e[1]
    if k == "var":
        return e[2]
    if k == "bin":
        return e[4]
    if k == "un":
        return e[3]
    if k == "cast":
        return e[1]
    if k == "call":
        return e[3]
    if k == "idx":
        return e[3]
    if k == "post":
        return e[3]
    raise ValueError(e)


def make_program(rng, hostile=False, tries=30):
    """Generate programs until the reference interpreter stays inside the documented range."""
    for _ in range(tries):
        g = Gen(rng, hostile)
        prog = g.program()
        src, line_of = render(prog, minimal=rng.random() < 0.4)
        res = Interp(prog, line_of).execute()
        if res[0] != "keptout":
            return prog, src, line_of, res, g.coverage
    return None
