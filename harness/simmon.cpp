// simmon: online monitors for QasmSimulator (properties C01-C04).
//
// The real simulator is driven through its public API; a monitor installed on the BLOCH_VERIF
// simPre/simPost callbacks checks every operation against an independent reference written
// straight from the definitions (scatter formulation, no blocked loops, no low/high arithmetic):
//   C01  gate == defining unitary on the addressed qubit(s) (x) identity, up to a global phase
//   C02  measure: outcome has support, post-state == normalised projection, threshold law
//   C03  2^n finite amplitudes, unit norm, allocation keeps the old state (x) |0>
//   C04  reset: target |0>, partners' reduced state unchanged on average over the reset's draw
//
// usage: simmon <c01|c02|c03|c04> --tier quick|thorough --seed N --shard i/k [--case "<descr>"]
// output: JSON lines; {"violation":...} per violation key (first witness), last line {"summary":...}
#include <algorithm>
#include <cinttypes>
#include <cmath>
#include <complex>
#include <cstdio>
#include <cstdlib>
#include <cstring>
#include <functional>
#include <map>
#include <random>
#include <set>
#include <sstream>
#include <string>
#include <vector>

#include "bloch/runtime/qasm_simulator.hpp"
#include "bloch/support/verif_hooks.hpp"

namespace bloch::runtime {
    void verifReseed(std::uint64_t seed);
}

using bloch::runtime::QasmSimulator;
using cd = std::complex<double>;
using Vec = std::vector<cd>;
static const double PI = 3.14159265358979323846;
static const cd I_(0, 1);

// ----------------------------------------------------------------------------------------
// reference
struct M2 {
    cd a[2][2];
};
static M2 pauli(char p) {
    M2 m{};
    if (p == 'x') {
        m.a[0][1] = 1;
        m.a[1][0] = 1;
    } else if (p == 'y') {
        m.a[0][1] = -I_;
        m.a[1][0] = I_;
    } else {
        m.a[0][0] = 1;
        m.a[1][1] = -1;
    }
    return m;
}
static M2 refMatrix(const std::string& op, double theta) {
    M2 m{};
    if (op == "h") {
        double s = 1.0 / std::sqrt(2.0);
        m.a[0][0] = s;
        m.a[0][1] = s;
        m.a[1][0] = s;
        m.a[1][1] = -s;
    } else if (op == "x" || op == "y" || op == "z") {
        m = pauli(op[0]);
    } else {  // rx ry rz : exp(-i theta P / 2) = cos(theta/2) I - i sin(theta/2) P
        M2 p = pauli(op[1]);
        double c = std::cos(theta / 2), s = std::sin(theta / 2);
        for (int r = 0; r < 2; ++r)
            for (int k = 0; k < 2; ++k) m.a[r][k] = (r == k ? cd(c, 0) : cd(0, 0)) - I_ * s * p.a[r][k];
    }
    return m;
}
static Vec refApply1(const Vec& in, int q, const M2& u) {
    Vec out(in.size(), cd(0, 0));
    for (size_t i = 0; i < in.size(); ++i) {
        int b = (i >> q) & 1;
        for (int nb = 0; nb < 2; ++nb) {
            size_t j = (i & ~(size_t{1} << q)) | (size_t(nb) << q);
            out[j] += u.a[nb][b] * in[i];
        }
    }
    return out;
}
static Vec refCx(const Vec& in, int c, int t) {
    Vec out(in.size(), cd(0, 0));
    for (size_t i = 0; i < in.size(); ++i) out[i ^ (((i >> c) & 1) << t)] = in[i];
    return out;
}
static double normSq(const Vec& v) {
    double s = 0;
    for (auto& a : v) s += std::norm(a);
    return s;
}
// max |act - e^{i phi} ref| with phi = arg <ref|act>
static double phaseDist(const Vec& ref, const Vec& act) {
    if (ref.size() != act.size())
        return 1e9;
    cd ip(0, 0);
    for (size_t i = 0; i < ref.size(); ++i) ip += std::conj(ref[i]) * act[i];
    cd ph = std::abs(ip) > 1e-300 ? ip / std::abs(ip) : cd(1, 0);
    double d = 0;
    for (size_t i = 0; i < ref.size(); ++i) d = std::max(d, std::abs(act[i] - ph * ref[i]));
    return d;
}
static double p1Of(const Vec& v, int q) {
    double p = 0;
    for (size_t i = 0; i < v.size(); ++i)
        if ((i >> q) & 1)
            p += std::norm(v[i]);
    return p;
}

// ----------------------------------------------------------------------------------------
// reporting
struct Report {
    std::map<std::string, std::string> violations;  // key -> json
    std::map<std::string, long> counters;
    std::set<std::uint64_t> distinct;
    long evaluations = 0;
    std::vector<std::string> samples;
    std::string currentCase;
    std::set<std::string> enabled;  // property ids whose violations are reported

    void violation(const std::string& prop, const std::string& key, const std::string& what) {
        if (!enabled.count(prop))
            return;
        std::string full = prop + "|" + key;
        if (violations.count(full))
            return;
        std::ostringstream o;
        o << "{\"violation\":1,\"prop\":\"" << prop << "\",\"key\":\"" << key << "\",\"what\":\""
          << bloch::verif::jsonEscape(what) << "\",\"case\":\""
          << bloch::verif::jsonEscape(currentCase) << "\"}";
        violations[full] = o.str();
    }
    void noteCase(const std::string& descr, bool sample) {
        evaluations++;
        distinct.insert(std::hash<std::string>{}(descr));
        if (sample && samples.size() < 4)
            samples.push_back(descr);
    }
};
static Report R;
static const double TOL = 1e-9;

// ----------------------------------------------------------------------------------------
// monitor
struct Monitor {
    Vec pre;
    int preN = 0;
    bool active = true;
    // freshness of production random draws: the value a measure/reset drew from the simulator's own
    // generator (no scripted source installed) must not be the value the previous one drew
    double lastRealDraw = -1.0;
    std::string lastRealOp;
    void forgetDraw() { lastRealDraw = -1.0; }
    void checkDraw(const bloch::verif::SimEvent& ev);
    void install() {
        auto& h = bloch::verif::hooks();
        h.simPre = [this](const QasmSimulator& s, const bloch::verif::SimEvent&) {
            pre = s.verifState();
            preN = s.verifQubits();
        };
        h.simPost = [this](const QasmSimulator& s, const bloch::verif::SimEvent& ev) {
            checkDraw(ev);
            if (active)
                check(s, ev);
        };
    }
    static std::string geom(const bloch::verif::SimEvent& ev, int n) {
        std::ostringstream o;
        o << ev.op << ":n" << n << ":q" << ev.q0;
        if (ev.q1 >= 0)
            o << ">" << ev.q1;
        return o.str();
    }
    void check(const QasmSimulator& s, const bloch::verif::SimEvent& ev) {
        const Vec& post = s.verifState();
        int n = s.verifQubits();
        std::string op = ev.op;
        R.counters["ops_monitored"]++;
        R.counters["op_" + op]++;
        // ---- C03 invariants after every op
        if (post.size() != (size_t{1} << n))
            R.violation("C03", "inv:len", "state length " + std::to_string(post.size()) +
                                               " for n=" + std::to_string(n) + " after " + op);
        bool preValid = pre.empty() || std::abs(normSq(pre) - 1.0) <= TOL;
        if (!preValid) {
            // an earlier op already broke the state (reported there, under C03/C04).  One thing is
            // still decidable: a measurement of a state that is not a unit vector does not draw
            // against the Born probability of the ray it stands for.
            if (op == "measure" && !pre.empty()) {
                double nrm = normSq(pre);
                double born = nrm > 0 ? p1Of(pre, ev.q0) / nrm : 0.0;
                if (std::isfinite(nrm) && std::abs(ev.p1 - born) > 1e-9)
                    R.violation("C02", "measure:born:unnormalised-state",
                                "measure drew against p1=" + bloch::verif::fmtDouble(ev.p1) +
                                    " but the state has norm^2=" + bloch::verif::fmtDouble(nrm) +
                                    ", i.e. Born probability " + bloch::verif::fmtDouble(born) + " at " +
                                    geom(ev, n));
            }
            return;
        }
        bool finite = true;
        for (auto& a : post)
            if (!std::isfinite(a.real()) || !std::isfinite(a.imag()))
                finite = false;
        if (!finite)
            R.violation("C03", "inv:nonfinite:" + op, "non-finite amplitude after " + geom(ev, n));
        else if (std::abs(normSq(post) - 1.0) > TOL)
            R.violation("C03", "inv:norm:" + op,
                        "norm^2=" + bloch::verif::fmtDouble(normSq(post)) + " after " + geom(ev, n) +
                            " p1=" + bloch::verif::fmtDouble(ev.p1) + " r=" +
                            bloch::verif::fmtDouble(ev.r));
        if (op == "alloc") {
            bool same = post.size() == 2 * pre.size();
            for (size_t i = 0; same && i < pre.size(); ++i)
                if (std::abs(post[i] - pre[i]) > 1e-12 || std::abs(post[i + pre.size()]) > 1e-12)
                    same = false;
            if (!same)
                R.violation("C03", "alloc:state-changed",
                            "allocation did not keep old state (x) |0> at n=" + std::to_string(n));
            return;
        }
        if (op == "h" || op == "x" || op == "y" || op == "z" || op == "rx" || op == "ry" ||
            op == "rz") {
            Vec ref = refApply1(pre, ev.q0, refMatrix(op, ev.theta));
            double d = phaseDist(ref, post);
            R.counters["c01_compared"]++;
            if (!(d < TOL))
                R.violation("C01", "gate:" + op + ":" + (pre.size() > 2 ? "multi" : "single"),
                            "dist=" + bloch::verif::fmtDouble(d) + " at " + geom(ev, n) +
                                " theta=" + bloch::verif::fmtDouble(ev.theta));
            return;
        }
        if (op == "cx") {
            Vec ref = refCx(pre, ev.q0, ev.q1);
            double d = phaseDist(ref, post);
            R.counters["c01_compared"]++;
            if (!(d < TOL)) {
                std::string g = ev.q0 < ev.q1 ? "c<t" : "c>t";
                g += std::abs(ev.q0 - ev.q1) == 1 ? ":adjacent" : ":apart";
                R.violation("C01", "gate:cx:" + g,
                            "dist=" + bloch::verif::fmtDouble(d) + " at " + geom(ev, n));
            }
            return;
        }
        if (op == "measure") {
            R.counters["c02_measures"]++;
            double p1 = p1Of(pre, ev.q0);
            double pb = 0;  // weight of the reported branch, summed directly (never 1 - p1)
            for (size_t i = 0; i < pre.size(); ++i)
                if (int((i >> ev.q0) & 1) == ev.outcome)
                    pb += std::norm(pre[i]);
            if (std::abs(ev.p1 - p1) > 1e-12)
                R.violation("C02", "measure:p1", "simulator p1 " + bloch::verif::fmtDouble(ev.p1) +
                                                     " vs reference " + bloch::verif::fmtDouble(p1));
            // support: the reported outcome must have non-zero weight
            if (!(pb > 0.0)) {
                R.violation("C02", "measure:support",
                            "outcome " + std::to_string(ev.outcome) + " has weight " +
                                bloch::verif::fmtDouble(pb) + " (p1=" + bloch::verif::fmtDouble(p1) +
                                ", r=" + bloch::verif::fmtDouble(ev.r) + ") at " + geom(ev, n));
                return;
            }
            // collapse: normalised projection computed independently
            Vec ref(pre.size(), cd(0, 0));
            double w = 0;
            for (size_t i = 0; i < pre.size(); ++i)
                if (int((i >> ev.q0) & 1) == ev.outcome)
                    w += std::norm(pre[i]);
            double inv = 1.0 / std::sqrt(w);
            for (size_t i = 0; i < pre.size(); ++i)
                if (int((i >> ev.q0) & 1) == ev.outcome)
                    ref[i] = pre[i] * inv;
            double d = 0;
            if (finite)
                for (size_t i = 0; i < pre.size(); ++i) d = std::max(d, std::abs(post[i] - ref[i]));
            else
                d = 1e9;
            if (!(d < TOL))
                R.violation("C02", "measure:collapse",
                            "post-state differs from normalised projection by " +
                                bloch::verif::fmtDouble(d) + " at " + geom(ev, n) + " outcome=" +
                                std::to_string(ev.outcome) + " p1=" + bloch::verif::fmtDouble(p1));
            // re-read: the collapsed state gives the same value with certainty
            double p1post = p1Of(post, ev.q0);
            if (finite && std::abs(p1post - (ev.outcome ? 1.0 : 0.0)) > TOL)
                R.violation("C02", "measure:reread",
                            "p1 after measuring " + std::to_string(ev.outcome) + " is " +
                                bloch::verif::fmtDouble(p1post));
            // measured flag set
            if (!(ev.q0 < (int)s.verifMeasured().size() && s.verifMeasured()[ev.q0]))
                R.violation("C02", "measure:flag", "measured flag not set");
            return;
        }
        if (op == "reset") {
            R.counters["c04_resets"]++;
            double p1post = p1Of(post, ev.q0);
            if (finite && p1post > TOL)
                R.violation("C04", "reset:target-not-zero",
                            "p1 of target after reset = " + bloch::verif::fmtDouble(p1post) +
                                " at " + geom(ev, n));
            return;
        }
    }
};
static Monitor MON;

void Monitor::checkDraw(const bloch::verif::SimEvent& ev) {
    std::string op = ev.op;
    if ((op != "measure" && op != "reset") || ev.r < 0.0 || bloch::verif::hooks().draw)
        return;
    R.counters["real_draws_seen"]++;
    if (ev.r == lastRealDraw) {
        bool wasReset = lastRealOp == "reset";
        if (wasReset && op == "measure")
            R.violation("C02", "measure:draw-replayed",
                        "this measurement drew " + bloch::verif::fmtDouble(ev.r) +
                            ", the very number the preceding reset drew: its outcome is not an independent "
                            "sample of the Born distribution");
        R.violation(wasReset ? "C04" : "C02",
                    std::string(wasReset ? "reset" : "measure") + ":draw-not-consumed",
                    "the random number " + bloch::verif::fmtDouble(ev.r) + " used by a " + lastRealOp +
                        " was used again by the next " + op +
                        ": the earlier operation did not advance the generator");
    }
    lastRealDraw = ev.r;
    lastRealOp = op;
}


// ----------------------------------------------------------------------------------------
// helpers to drive the simulator
struct Rng {
    std::mt19937_64 g;
    explicit Rng(std::uint64_t s) : g(s) {}
    int upto(int n) { return int(g() % std::uint64_t(n)); }
    double unit() { return double(g() >> 11) / 9007199254740992.0; }
    double angle() {
        // besides the round values: angles whose half-angle sine or cosine is tiny but far above the
        // comparison tolerance (a rotation "close enough to the identity" is still a rotation)
        static const double special[] = {0,       PI / 2,  -PI / 2, PI,    -PI,
                                         2 * PI,  -2 * PI, 4 * PI,  PI / 3, 1e-9,
                                         1e3,     -1e3,    PI / 4,  0.1,
                                         1.5e-6,  -1.5e-6, 1e-4,    3e-7,   2e-8,
                                         2 * PI + 1.5e-6, 2 * PI - 1.5e-6, 4 * PI - 1e-5,
                                         PI + 1.5e-6,     PI - 1.5e-6,     -PI + 1e-5, 3e-3};
        if (upto(3) == 0)
            return special[upto(26)];
        double a = (unit() * 2 - 1) * 2 * PI;
        return upto(2) ? double(float(a)) : a;  // float32-rounded like literals in programs
    }
};

static void applyRandomGate(QasmSimulator& s, Rng& rg, int n, std::string* log = nullptr) {
    int k = rg.upto(n >= 2 ? 10 : 7);
    int q = rg.upto(n);
    std::ostringstream o;
    switch (k) {
        case 0:
            s.h(q);
            o << "h " << q;
            break;
        case 1:
            s.x(q);
            o << "x " << q;
            break;
        case 2:
            s.y(q);
            o << "y " << q;
            break;
        case 3:
            s.z(q);
            o << "z " << q;
            break;
        case 4: {
            double a = rg.angle();
            s.rx(q, a);
            o << "rx " << q << " " << a;
            break;
        }
        case 5: {
            double a = rg.angle();
            s.ry(q, a);
            o << "ry " << q << " " << a;
            break;
        }
        case 6: {
            double a = rg.angle();
            s.rz(q, a);
            o << "rz " << q << " " << a;
            break;
        }
        default: {
            int t = rg.upto(n - 1);
            if (t >= q)
                t++;
            s.cx(q, t);
            o << "cx " << q << " " << t;
            break;
        }
    }
    if (log)
        *log += o.str() + ";";
}

// random state over n qubits; style 0 product, 1 entangled dense, 2 with edge probabilities
static void prepareState(QasmSimulator& s, Rng& rg, int n, int style, int depth) {
    for (int i = 0; i < n; ++i) s.allocateQubit();
    if (style == 0) {
        for (int q = 0; q < n; ++q) {
            s.ry(q, rg.angle());
            s.rz(q, rg.angle());
        }
    } else if (style == 1) {
        for (int q = 0; q < n; ++q) s.h(q);
        for (int d = 0; d < depth; ++d) applyRandomGate(s, rg, n);
    } else {
        // edge probabilities: qubits certainly 0/1, almost-certain, and x;h;h-style rounding
        for (int q = 0; q < n; ++q) {
            switch (rg.upto(6)) {
                case 0:
                    break;
                case 1:
                    s.x(q);
                    break;
                case 2:
                    s.x(q);
                    s.h(q);
                    s.h(q);
                    break;
                case 3:
                    s.ry(q, 2e-8);
                    break;
                case 4:
                    s.ry(q, PI - 2e-8);
                    break;
                default:
                    s.h(q);
                    break;
            }
        }
        for (int d = 0; d < depth / 4; ++d) {
            if (n >= 2 && rg.upto(2)) {
                int c = rg.upto(n), t = rg.upto(n - 1);
                if (t >= c)
                    t++;
                s.cx(c, t);
            }
        }
    }
}

static bool shardMine(long idx, int shard, int shards) { return (idx % shards) == shard; }

// ----------------------------------------------------------------------------------------
// workloads
static const double ANGLES[] = {0.0,     PI / 2, -PI / 2, PI,   -PI,  2 * PI,
                                -2 * PI, 4 * PI, PI / 3,  1e-9, 1e3,  0.7853981852531433,
                                1.5e-6,  -3e-7,  1e-4,    2 * PI + 1.5e-6, PI - 1.5e-6, 2e-8};

static void runOneBasisCase(int n, const std::string& gate, int q0, int q1, double theta,
                            size_t basis) {
    QasmSimulator s(false);
    for (int i = 0; i < n; ++i) s.allocateQubit();
    for (int b = 0; b < n; ++b)
        if ((basis >> b) & 1)
            s.x(b);
    if (gate == "h")
        s.h(q0);
    else if (gate == "x")
        s.x(q0);
    else if (gate == "y")
        s.y(q0);
    else if (gate == "z")
        s.z(q0);
    else if (gate == "rx")
        s.rx(q0, theta);
    else if (gate == "ry")
        s.ry(q0, theta);
    else if (gate == "rz")
        s.rz(q0, theta);
    else
        s.cx(q0, q1);
}

static void wExhaustive(int N, int shard, int shards) {
    long idx = 0;
    const char* gates[] = {"h", "x", "y", "z", "rx", "ry", "rz", "cx"};
    for (int n = 1; n <= N; ++n) {
        for (const char* g : gates) {
            std::string gate = g;
            bool rot = gate[0] == 'r';
            bool two = gate == "cx";
            for (int q0 = 0; q0 < n; ++q0) {
                for (int q1 = (two ? 0 : -1); q1 < (two ? n : 0); ++q1) {
                    if (two && q1 == q0)
                        continue;
                    for (int ai = 0; ai < (rot ? int(sizeof(ANGLES) / sizeof(ANGLES[0])) : 1); ++ai) {
                        ++idx;
                        if (!shardMine(idx, shard, shards))
                            continue;
                        for (size_t basis = 0; basis < (size_t{1} << n); ++basis) {
                            std::ostringstream d;
                            d << "basis " << n << " " << gate << " " << q0 << " " << q1 << " "
                              << bloch::verif::fmtDouble(rot ? ANGLES[ai] : 0.0) << " " << basis;
                            R.currentCase = d.str();
                            R.noteCase(R.currentCase, basis == 1 && (idx % 97 == 0));
                            runOneBasisCase(n, gate, q0, q1, rot ? ANGLES[ai] : 0.0, basis);
                        }
                    }
                }
            }
        }
    }
    R.counters["exhaustive_max_n"] = N;
}

static void runCircuit(std::uint64_t seed, int n, int depth) {
    Rng rg(seed);
    QasmSimulator s(false);
    for (int i = 0; i < n; ++i) s.allocateQubit();
    for (int q = 0; q < n; ++q)
        if (rg.upto(2))
            s.h(q);
    for (int d = 0; d < depth; ++d) applyRandomGate(s, rg, n);
}

static void wCircuits(std::uint64_t seed, long count, int maxN, int depth, int shard, int shards) {
    for (long i = 0; i < count; ++i) {
        if (!shardMine(i, shard, shards))
            continue;
        std::uint64_t cs = seed * 1000003ull + std::uint64_t(i);
        Rng pick(cs ^ 0xabcdef);
        int n = 1 + pick.upto(maxN);
        std::ostringstream d;
        d << "circ " << cs << " " << n << " " << depth;
        R.currentCase = d.str();
        R.noteCase(R.currentCase, i < 3);
        runCircuit(cs, n, depth);
    }
}

// measurement workload for one prepared state: threshold law + hostile draws + real RNG
static void measureCase(std::uint64_t cs, int n, int style, int K, long realDraws) {
    Rng rg(cs);
    QasmSimulator base(false);
    prepareState(base, rg, n, style, 20 + rg.upto(30));
    // optionally a history: measure one qubit / reset one first
    if (n >= 2 && rg.upto(3) == 0) {
        int q = rg.upto(n);
        bloch::verif::hooks().draw = [&](double& r) {
            r = rg.unit();
            return true;
        };
        base.measure(q);
        if (rg.upto(2))
            base.reset(q);
    }
    auto& h = bloch::verif::hooks();
    for (int q = 0; q < n; ++q) {
        if (q < (int)base.verifMeasured().size() && base.verifMeasured()[q])
            continue;
        double p1 = p1Of(base.verifState(), q);
        // (4) threshold law on a draw grid
        long ones = 0;
        for (int k = 0; k < K; ++k) {
            double r = (k + 0.5) / K;
            h.draw = [r](double& out) {
                out = r;
                return true;
            };
            QasmSimulator c = base;
            ones += c.measure(q);
        }
        R.counters["c02_grid_draws"] += K;
        if (std::abs(double(ones) / K - p1) > 1.0 / K + 1e-12)
            R.violation("C02", "measure:threshold",
                        "ones/K=" + bloch::verif::fmtDouble(double(ones) / K) + " p1=" +
                            bloch::verif::fmtDouble(p1) + " K=" + std::to_string(K) + " q=" +
                            std::to_string(q));
        // boundary draws: only support/collapse/invariants are asserted (by the monitor)
        double ulp = std::ldexp(1.0, -53);
        double hostile[] = {0.0,           ulp,           std::nextafter(p1, 0.0), p1,
                            std::nextafter(p1, 2.0), 1.0 - ulp,     0.5};
        for (double r : hostile) {
            if (r < 0.0 || r >= 1.0)
                continue;
            h.draw = [r](double& out) {
                out = r;
                return true;
            };
            QasmSimulator c = base;
            c.measure(q);
            R.counters["c02_hostile_draws"]++;
        }
        // (5) production RNG, seeded: frequency within 6 sigma
        if (realDraws > 0) {
            h.draw = nullptr;
            bloch::runtime::verifReseed(cs ^ (0x5eedull + q));
            long o = 0;
            MON.active = false;  // statistics only; collapse already checked above
            for (long k = 0; k < realDraws; ++k) {
                QasmSimulator c = base;
                o += c.measure(q);
            }
            MON.active = true;
            R.counters["c02_rng_draws"] += realDraws;
            double sigma = std::sqrt(std::max(p1 * (1 - p1), 0.0) / realDraws);
            double dev = std::abs(double(o) / realDraws - p1);
            if (dev > 6 * sigma + 1.0 / realDraws)
                R.violation("C02", "measure:freq",
                            "freq=" + bloch::verif::fmtDouble(double(o) / realDraws) + " p1=" +
                                bloch::verif::fmtDouble(p1) + " N=" + std::to_string(realDraws));
        }
    }
    h.draw = nullptr;
}

static void wMeasure(std::uint64_t seed, long states, int K, long rngStates, long realDraws,
                     int shard, int shards) {
    for (long i = 0; i < states; ++i) {
        if (!shardMine(i, shard, shards))
            continue;
        std::uint64_t cs = seed * 7919ull + std::uint64_t(i) * 31ull + 17;
        Rng pick(cs ^ 0x1234);
        int n = 1 + pick.upto(6);
        int style = pick.upto(3);
        std::ostringstream d;
        d << "meas " << cs << " " << n << " " << style << " " << K << " "
          << (i < rngStates ? realDraws : 0);
        R.currentCase = d.str();
        R.noteCase(R.currentCase, i < 3);
        measureCase(cs, n, style, K, i < rngStates ? realDraws : 0);
    }
}

// reduced density matrix of all qubits but q (dimension 2^(n-1))
static std::vector<cd> reducedWithout(const Vec& v, int n, int q) {
    size_t dim = size_t{1} << (n - 1);
    std::vector<cd> rho(dim * dim, cd(0, 0));
    auto expand = [&](size_t r, int b) {
        size_t low = r & ((size_t{1} << q) - 1);
        size_t high = r >> q;
        return (high << (q + 1)) | (size_t(b) << q) | low;
    };
    for (size_t a = 0; a < dim; ++a)
        for (size_t b = 0; b < dim; ++b) {
            cd s(0, 0);
            for (int t = 0; t < 2; ++t) s += v[expand(a, t)] * std::conj(v[expand(b, t)]);
            rho[a * dim + b] = s;
        }
    return rho;
}

static void resetCase(std::uint64_t cs, int n, int style, int K) {
    Rng rg(cs);
    QasmSimulator base(false);
    prepareState(base, rg, n, style, 20 + rg.upto(30));
    auto& h = bloch::verif::hooks();
    if (n >= 2 && rg.upto(4) == 0) {
        int q = rg.upto(n);
        h.draw = [&](double& r) {
            r = rg.unit();
            return true;
        };
        base.measure(q);
    }
    for (int q = 0; q < n; ++q) {
        const Vec& pre = base.verifState();
        std::vector<cd> rhoBefore = n >= 2 ? reducedWithout(pre, n, q) : std::vector<cd>{cd(1, 0)};
        size_t dim = n >= 2 ? (size_t{1} << (n - 1)) : 1;
        std::vector<cd> avg(dim * dim, cd(0, 0));
        int clusters = 0;
        Vec last;
        for (int k = 0; k < K; ++k) {
            double r = (k + 0.5) / K;
            h.draw = [r](double& out) {
                out = r;
                return true;
            };
            QasmSimulator c = base;
            c.reset(q);
            const Vec& post = c.verifState();
            if (last.empty() || phaseDist(last, post) > 1e-9) {
                clusters++;
                last = post;
            }
            std::vector<cd> rho = n >= 2 ? reducedWithout(post, n, q) : std::vector<cd>{cd(1, 0)};
            for (size_t i = 0; i < avg.size(); ++i) avg[i] += rho[i] / double(K);
            if (c.verifMeasured().size() > size_t(q) && c.verifMeasured()[q])
                R.violation("C04", "reset:flag", "measured flag still set after reset");
        }
        R.counters["c04_reset_draws"] += K;
        R.counters["c04_branch_changes"] += clusters;
        double d = 0;
        for (size_t i = 0; i < avg.size(); ++i) d = std::max(d, std::abs(avg[i] - rhoBefore[i]));
        if (d > 2.0 / K + 1e-9)
            R.violation("C04", "reset:partner-statistics:statement",
                        "reduced state of the other qubits moved by " + bloch::verif::fmtDouble(d) +
                            " (n=" + std::to_string(n) + ", target q" + std::to_string(q) +
                            ", K=" + std::to_string(K) + ")");
    }
    h.draw = nullptr;
}

static void wReset(std::uint64_t seed, long states, int K, int shard, int shards) {
    for (long i = 0; i < states; ++i) {
        if (!shardMine(i, shard, shards))
            continue;
        std::uint64_t cs = seed * 104729ull + std::uint64_t(i) * 13ull + 5;
        Rng pick(cs ^ 0x777);
        int n = 1 + pick.upto(5);
        int style = pick.upto(3);
        std::ostringstream d;
        d << "reset " << cs << " " << n << " " << style << " " << K;
        R.currentCase = d.str();
        R.noteCase(R.currentCase, i < 3);
        resetCase(cs, n, style, K);
    }
    // fixed witnesses: Bell / GHZ with an unmeasured, maximally entangled target
    if (shard == 0) {
        for (int n = 2; n <= 4; ++n) {
            std::ostringstream d;
            d << "ghz " << n << " " << K;
            R.currentCase = d.str();
            R.noteCase(R.currentCase, n == 2);
            QasmSimulator base(false);
            for (int i = 0; i < n; ++i) base.allocateQubit();
            base.h(0);
            for (int i = 1; i < n; ++i) base.cx(0, i);
            auto& h = bloch::verif::hooks();
            for (int q = 0; q < n; ++q) {
                std::vector<cd> rhoBefore = reducedWithout(base.verifState(), n, q);
                std::vector<cd> avg(rhoBefore.size(), cd(0, 0));
                for (int k = 0; k < K; ++k) {
                    double r = (k + 0.5) / K;
                    h.draw = [r](double& out) {
                        out = r;
                        return true;
                    };
                    QasmSimulator c = base;
                    c.reset(q);
                    auto rho = reducedWithout(c.verifState(), n, q);
                    for (size_t i = 0; i < avg.size(); ++i) avg[i] += rho[i] / double(K);
                }
                double dd = 0;
                for (size_t i = 0; i < avg.size(); ++i)
                    dd = std::max(dd, std::abs(avg[i] - rhoBefore[i]));
                if (dd > 2.0 / K + 1e-9)
                    R.violation("C04", "reset:partner-statistics:statement",
                                "GHZ(" + std::to_string(n) + ") reset q" + std::to_string(q) +
                                    ": partners' reduced state moved by " +
                                    bloch::verif::fmtDouble(dd));
            }
            h.draw = nullptr;
        }
    }
}

// histories: interleave allocate / gates / measure / reset with hostile draws (C03 invariants)
static void historyCase(std::uint64_t cs, int maxQ, int ops) {
    Rng rg(cs);
    QasmSimulator s(false);
    auto& h = bloch::verif::hooks();
    double ulp = std::ldexp(1.0, -53);
    h.draw = [&](double& r) {
        switch (rg.upto(6)) {
            case 0:
                r = 0.0;
                break;
            case 1:
                r = 1.0 - ulp;
                break;
            case 2:
                r = ulp;
                break;
            default:
                r = rg.unit();
        }
        return true;
    };
    int n = 0;
    std::vector<bool> measured;
    for (int i = 0; i < ops; ++i) {
        int k = rg.upto(10);
        if (n == 0 || (k == 0 && n < maxQ)) {
            s.allocateQubit();
            measured.push_back(false);
            n++;
            continue;
        }
        int q = rg.upto(n);
        if (k <= 5) {
            // a gate on an unmeasured qubit (the simulator refuses measured ones)
            std::vector<int> free;
            for (int j = 0; j < n; ++j)
                if (!measured[j])
                    free.push_back(j);
            if (free.empty()) {
                s.reset(q);
                measured[q] = false;
                continue;
            }
            int a = free[rg.upto((int)free.size())];
            switch (rg.upto(6)) {
                case 0:
                    s.h(a);
                    break;
                case 1:
                    s.x(a);
                    break;
                case 2:
                    s.ry(a, rg.angle());
                    break;
                case 3:
                    s.rz(a, rg.angle());
                    break;
                case 4:
                    s.x(a);
                    s.h(a);
                    s.h(a);
                    break;
                default: {
                    if (free.size() >= 2) {
                        int b = free[rg.upto((int)free.size())];
                        if (b != a)
                            s.cx(a, b);
                    } else
                        s.y(a);
                }
            }
        } else if (k <= 7) {
            if (!measured[q]) {
                s.measure(q);
                measured[q] = true;
            }
        } else {
            s.reset(q);
            measured[q] = false;
        }
    }
    h.draw = nullptr;
}

// production generator, seeded: sequences of probabilistic operations on qubits kept in superposition;
// the draw-freshness monitor watches consecutive draws, and the pairwise correlation of consecutive
// outcomes of independent qubits is accumulated (two independent fair outcomes agree half the time)
static void freshCase(std::uint64_t cs, long& agree, long& pairs) {
    Rng rg(cs);
    int n = 2 + rg.upto(4);
    QasmSimulator s(false);
    for (int i = 0; i < n; ++i) s.allocateQubit();
    bloch::verif::hooks().draw = nullptr;
    bloch::runtime::verifReseed(cs ^ 0xf5e5ull);
    MON.forgetDraw();
    std::vector<bool> measured(n, false);
    int prevOutcome = -1;
    bool prevWasReset = false;
    int steps = 4 + rg.upto(8);
    for (int k = 0; k < steps; ++k) {
        int q = rg.upto(n);
        if (measured[q]) {
            s.reset(q);
            measured[q] = false;
        }
        // fresh, unentangled fair coin on q
        s.reset(q);
        s.h(q);
        if (rg.upto(3) == 0) {
            // reset of a fair coin: samples a branch (uses a draw), outcome not visible
            s.reset(q);
            prevWasReset = true;
            prevOutcome = -1;
            continue;
        }
        int out = s.measure(q);
        measured[q] = true;
        if (prevOutcome >= 0 && !prevWasReset) {
            pairs++;
            if (out == prevOutcome)
                agree++;
        }
        prevOutcome = out;
        prevWasReset = false;
    }
}

static void wFreshDraws(std::uint64_t seed, long count, int shard, int shards, const char* prop) {
    long agree = 0, pairs = 0;
    for (long i = 0; i < count; ++i) {
        if (!shardMine(i, shard, shards))
            continue;
        std::uint64_t cs = seed * 1315423911ull + std::uint64_t(i) * 131ull + 11;
        std::ostringstream d;
        d << "fresh " << cs;
        R.currentCase = d.str();
        R.noteCase(R.currentCase, i < 3);
        freshCase(cs, agree, pairs);
    }
    R.counters["fresh_outcome_pairs"] += pairs;
    if (pairs > 200) {
        double dev = std::abs(double(agree) / pairs - 0.5);
        double sigma = 0.5 / std::sqrt(double(pairs));
        if (dev > 6 * sigma)
            R.violation(prop, "draws:consecutive-outcomes-correlated",
                        "consecutive measurements of independent fair qubits agreed in " +
                            std::to_string(agree) + " of " + std::to_string(pairs) + " pairs");
    }
}

static void wHistories(std::uint64_t seed, long count, int maxQ, int ops, int shard, int shards) {
    for (long i = 0; i < count; ++i) {
        if (!shardMine(i, shard, shards))
            continue;
        std::uint64_t cs = seed * 2654435761ull + std::uint64_t(i) * 97ull + 3;
        std::ostringstream d;
        d << "hist " << cs << " " << maxQ << " " << ops;
        R.currentCase = d.str();
        R.noteCase(R.currentCase, i < 3);
        historyCase(cs, maxQ, ops);
    }
}

// fixed C02/C03 witness: x;h;h then draw 1-2^-53
static void wRoundingWitness() {
    R.currentCase = "xhh-draw-max";
    R.noteCase(R.currentCase, true);
    auto& h = bloch::verif::hooks();
    for (int n = 1; n <= 3; ++n) {
        QasmSimulator s(false);
        for (int i = 0; i < n; ++i) s.allocateQubit();
        s.x(0);
        s.h(0);
        s.h(0);
        double r = 1.0 - std::ldexp(1.0, -53);
        h.draw = [r](double& out) {
            out = r;
            return true;
        };
        s.measure(0);
        h.draw = nullptr;
    }
}

// replay of one case descriptor
static void replayCase(const std::string& descr) {
    std::istringstream in(descr);
    std::string kind;
    in >> kind;
    R.currentCase = descr;
    R.noteCase(descr, true);
    if (kind == "basis") {
        int n, q0, q1;
        std::string gate;
        double th;
        size_t basis;
        in >> n >> gate >> q0 >> q1 >> th >> basis;
        runOneBasisCase(n, gate, q0, q1, th, basis);
    } else if (kind == "circ") {
        std::uint64_t cs;
        int n, depth;
        in >> cs >> n >> depth;
        runCircuit(cs, n, depth);
    } else if (kind == "meas") {
        std::uint64_t cs;
        int n, style, K;
        long rd;
        in >> cs >> n >> style >> K >> rd;
        measureCase(cs, n, style, K, rd);
    } else if (kind == "fresh") {
        std::uint64_t cs;
        in >> cs;
        long a = 0, p = 0;
        freshCase(cs, a, p);
    } else if (kind == "reset") {
        std::uint64_t cs;
        int n, style, K;
        in >> cs >> n >> style >> K;
        resetCase(cs, n, style, K);
    } else if (kind == "hist") {
        std::uint64_t cs;
        int maxQ, ops;
        in >> cs >> maxQ >> ops;
        historyCase(cs, maxQ, ops);
    } else if (kind == "xhh-draw-max") {
        wRoundingWitness();
    } else if (kind == "ghz") {
        int n, K;
        in >> n >> K;
        wReset(0, 0, K, 0, 1);
    }
}

int main(int argc, char** argv) {
    std::string prop = argc > 1 ? argv[1] : "c01";
    std::string tier = "quick";
    std::uint64_t seed = 1;
    int shard = 0, shards = 1;
    std::string oneCase;
    for (int i = 2; i < argc; ++i) {
        std::string a = argv[i];
        if (a == "--tier" && i + 1 < argc)
            tier = argv[++i];
        else if (a == "--seed" && i + 1 < argc)
            seed = std::strtoull(argv[++i], nullptr, 10);
        else if (a == "--shard" && i + 1 < argc)
            std::sscanf(argv[++i], "%d/%d", &shard, &shards);
        else if (a == "--case" && i + 1 < argc)
            oneCase = argv[++i];
    }
    bool quick = tier != "thorough";
    MON.install();
    std::string P = prop;
    for (auto& c : P) c = char(std::toupper(c));
    R.enabled.insert(P);
    try {
        if (!oneCase.empty()) {
            replayCase(oneCase);
        } else if (P == "C01") {
            wExhaustive(quick ? 7 : 10, shard, shards);
            wCircuits(seed, quick ? 3000 : 60000, 8, 60, shard, shards);
        } else if (P == "C02") {
            wMeasure(seed, quick ? 2000 : 30000, quick ? 128 : 1024, quick ? 64 : 400,
                     quick ? 20000 : 100000, shard, shards);
            // measurements reached through arbitrary histories (allocations, gates, earlier
            // measurements, resets, releases) are judged by the same monitor
            wHistories(seed + 17, quick ? 6000 : 150000, quick ? 8 : 10, quick ? 60 : 200, shard, shards);
            wFreshDraws(seed, quick ? 4000 : 80000, shard, shards, "C02");
            if (shard == 0)
                wRoundingWitness();
        } else if (P == "C03") {
            // the invariant monitor runs over every workload
            wHistories(seed, quick ? 20000 : 400000, quick ? 8 : 10, quick ? 60 : 200, shard,
                       shards);
            wCircuits(seed, quick ? 1000 : 10000, 8, 60, shard, shards);
            wMeasure(seed, quick ? 500 : 5000, 32, 0, 0, shard, shards);
            wReset(seed, quick ? 300 : 3000, 16, shard, shards);
            if (shard == 0)
                wRoundingWitness();
        } else if (P == "C04") {
            wReset(seed, quick ? 3000 : 40000, quick ? 64 : 512, shard, shards);
            wFreshDraws(seed + 5, quick ? 4000 : 80000, shard, shards, "C04");
        }
    } catch (const std::exception& ex) {
        R.violation(P, "harness:exception", std::string("unexpected exception: ") + ex.what());
    }
    for (auto& kv : R.violations) std::printf("%s\n", kv.second.c_str());
    std::printf("{\"summary\":1,\"evaluations\":%ld,\"distinct\":%zu,\"counters\":{", R.evaluations,
                R.distinct.size());
    bool first = true;
    for (auto& kv : R.counters) {
        std::printf("%s\"%s\":%ld", first ? "" : ",", kv.first.c_str(), kv.second);
        first = false;
    }
    std::printf("},\"samples\":[");
    for (size_t i = 0; i < R.samples.size(); ++i)
        std::printf("%s\"%s\"", i ? "," : "", bloch::verif::jsonEscape(R.samples[i]).c_str());
    std::printf("]}\n");
    return 0;
}
