// updmon: monitors for the self-updater (C20).  update_manager.cpp is #included so that its
// file-local helpers (parseSemVer, compareSemVer, hasLatest, parseChecksum, maybePrintNotice ...)
// are reachable; the clock and the three network functions are replaced through the BLOCH_VERIF
// override slots, so nothing here touches the network.
//
//   updmon semver   <file: one version string per line>      parse + all-pairs compare/hasLatest
//   updmon decide   <file: "<current>\t<latest>" per line>   performSelfUpdate / first-run notice decisions
//   updmon checksum <dir> <n>                                 parseChecksum over <dir>/c<i>.txt + c<i>.asset
//   updmon history  <script>                                  scripted checkForUpdatesIfDue calls, virtual clock
#include <cstdio>
#include <cstdlib>
#include <filesystem>
#include <fstream>
#include <iostream>
#include <sstream>
#include <string>
#include <vector>

#include "bloch/update/update_manager.cpp"

using namespace bloch::update;
namespace uv = bloch::update::verif;

static std::string esc(const std::string& s) {
    std::string o;
    for (unsigned char c : s) {
        if (c == '"' || c == '\\') {
            o.push_back('\\');
            o.push_back(char(c));
        } else if (c < 0x20 || c >= 0x7f) {
            char b[8];
            std::snprintf(b, sizeof b, "\\u%04x", c);
            o += b;
        } else
            o.push_back(char(c));
    }
    return o;
}

static std::vector<std::string> readLines(const std::string& path) {
    std::ifstream in(path, std::ios::binary);
    std::vector<std::string> out;
    std::string line;
    while (std::getline(in, line)) out.push_back(line);
    return out;
}

struct Capture {
    std::ostringstream out, err;
    std::streambuf *oldOut, *oldErr;
    Capture() : oldOut(std::cout.rdbuf(out.rdbuf())), oldErr(std::cerr.rdbuf(err.rdbuf())) {}
    ~Capture() {
        std::cout.rdbuf(oldOut);
        std::cerr.rdbuf(oldErr);
    }
};

static int doSemver(const std::string& file) {
    auto v = readLines(file);
    std::vector<SemVer> parsed(v.size());
    std::vector<int> state(v.size(), 0);
    for (size_t i = 0; i < v.size(); ++i) {
        try {
            parsed[i] = parseSemVer(v[i]);
            std::printf("S %zu %d %d %d %d\n", i, parsed[i].valid ? 1 : 0, parsed[i].major,
                        parsed[i].minor, parsed[i].patch);
        } catch (const std::exception& e) {
            state[i] = 1;
            std::printf("S %zu EXC %s\n", i, e.what());
        }
    }
    for (size_t i = 0; i < v.size(); ++i) {
        if (state[i])
            continue;
        for (size_t j = 0; j < v.size(); ++j) {
            if (state[j])
                continue;
            int c = compareSemVer(parsed[i], parsed[j]);
            bool hl = hasLatest(v[i], v[j]);
            std::printf("C %zu %zu %d %d\n", i, j, c, hl ? 1 : 0);
        }
    }
    return 0;
}

static int doDecide(const std::string& file) {
    auto lines = readLines(file);
    std::string cacheDir = std::getenv("XDG_CACHE_HOME") ? std::getenv("XDG_CACHE_HOME") : "/nonexistent";
    long t = 1700000000;
    uv::now = [&] { return std::chrono::system_clock::time_point(std::chrono::seconds(t)); };
    for (size_t i = 0; i < lines.size(); ++i) {
        auto tab = lines[i].find('\t');
        if (tab == std::string::npos)
            continue;
        std::string cur = lines[i].substr(0, tab), latest = lines[i].substr(tab + 1);
        int downloads = 0, fetches = 0;
        uv::fetchLatestReleaseTag = [&](const std::string&, std::string&) {
            fetches++;
            return std::optional<std::string>(latest);
        };
        uv::downloadFile = [&](const std::string&, const std::string&, const std::filesystem::path&,
                               std::string& e) {
            downloads++;
            e = "scripted refusal";
            return false;
        };
        uv::downloadText = [&](const std::string&, const std::string&, std::string&, std::string& e) {
            e = "scripted refusal";
            return false;
        };
        std::string verdict = "ok";
        bool ret = false, saidLatest = false, prompted = false;
        {
            Capture cap;
            std::istringstream yes("y\n");
            auto* oldIn = std::cin.rdbuf(yes.rdbuf());
            try {
                ret = performSelfUpdate(cur, "/nonexistent/bloch");
            } catch (const std::exception& e) {
                verdict = std::string("EXC ") + e.what();
            }
            std::cin.rdbuf(oldIn);
            saidLatest = cap.out.str().find("already have the latest") != std::string::npos;
            prompted = cap.out.str().find("Proceed with the update") != std::string::npos;
        }
        // first-run notice decision (no cache file)
        std::remove((cacheDir + "/bloch/update_cache.txt").c_str());
        bool notice = false;
        std::string nverdict = "ok";
        {
            Capture cap;
            try {
                checkForUpdatesIfDue(cur);
            } catch (const std::exception& e) {
                nverdict = std::string("EXC ") + e.what();
            }
            notice = cap.out.str().find("There is a new") != std::string::npos;
        }
        std::remove((cacheDir + "/bloch/update_cache.txt").c_str());
        std::printf("D %zu %s|ret=%d|downloads=%d|saidLatest=%d|prompted=%d|%s|notice=%d\n", i,
                    verdict.c_str(), ret ? 1 : 0, downloads, saidLatest ? 1 : 0, prompted ? 1 : 0,
                    nverdict.c_str(), notice ? 1 : 0);
    }
    return 0;
}

static int doChecksum(const std::string& dir, int n) {
    for (int i = 0; i < n; ++i) {
        std::ifstream c(dir + "/c" + std::to_string(i) + ".txt", std::ios::binary);
        std::string content((std::istreambuf_iterator<char>(c)), std::istreambuf_iterator<char>());
        std::ifstream a(dir + "/c" + std::to_string(i) + ".asset", std::ios::binary);
        std::string asset((std::istreambuf_iterator<char>(a)), std::istreambuf_iterator<char>());
        try {
            auto r = parseChecksum(content, asset);
            std::printf("K %d %s\n", i, r ? ("HASH " + esc(*r)).c_str() : "NONE");
        } catch (const std::exception& e) {
            std::printf("K %d EXC %s\n", i, e.what());
        }
    }
    return 0;
}

// script lines:  RESET | CALL <t seconds> <current> <latest or FAIL> <env: - | BLOCH_NO_UPDATE_CHECK | CI | BLOCH_OFFLINE>
static int doHistory(const std::string& file) {
    auto lines = readLines(file);
    std::string cacheFile = std::string(std::getenv("XDG_CACHE_HOME")) + "/bloch/update_cache.txt";
    long t = 0;
    uv::now = [&] { return std::chrono::system_clock::time_point(std::chrono::seconds(t)); };
    int idx = 0;
    for (auto& line : lines) {
        std::istringstream in(line);
        std::string cmd;
        in >> cmd;
        if (cmd == "RESET") {
            std::remove(cacheFile.c_str());
            {
                // every history starts on a machine where not even the cache home exists yet
                std::error_code ec;
                std::filesystem::remove_all(std::getenv("XDG_CACHE_HOME"), ec);
            }
            std::printf("R\n");
            continue;
        }
        if (cmd != "CALL")
            continue;
        std::string cur, latest, env;
        in >> t >> cur >> latest >> env;
        int fetches = 0;
        uv::fetchLatestReleaseTag = [&](const std::string&, std::string& e) -> std::optional<std::string> {
            fetches++;
            if (latest == "FAIL") {
                e = "scripted failure";
                return std::nullopt;
            }
            return latest;
        };
        for (const char* k : {"BLOCH_NO_UPDATE_CHECK", "CI", "BLOCH_OFFLINE"}) unsetenv(k);
        if (env != "-")
            setenv(env.c_str(), "1", 1);
        std::string verdict = "ok", text;
        {
            Capture cap;
            try {
                checkForUpdatesIfDue(cur);
            } catch (const std::exception& e) {
                verdict = std::string("EXC ") + e.what();
            }
            text = cap.out.str();
        }
        bool notice = text.find("There is a new") != std::string::npos;
        int notices = 0;
        for (size_t p = text.find("There is a new"); p != std::string::npos; p = text.find("There is a new", p + 1)) notices++;
        std::string mentioned;
        auto p = text.find("version of Bloch, ");
        if (p != std::string::npos) {
            auto q = text.find(". You currently", p);
            mentioned = text.substr(p + 18, q - p - 18);
        }
        auto cache = readLines(cacheFile);
        std::printf("H %d %s|notices=%d|fetches=%d|mentioned=%s|cache=%s,%s,%s\n", idx++, verdict.c_str(),
                    notice ? notices : 0, fetches, esc(mentioned).c_str(),
                    cache.size() > 0 ? cache[0].c_str() : "-", cache.size() > 1 ? esc(cache[1]).c_str() : "-",
                    cache.size() > 2 ? cache[2].c_str() : "-");
    }
    return 0;
}

int main(int argc, char** argv) {
    if (argc < 3)
        return 2;
    std::string mode = argv[1];
    if (mode == "semver")
        return doSemver(argv[2]);
    if (mode == "decide")
        return doDecide(argv[2]);
    if (mode == "checksum" && argc >= 4)
        return doChecksum(argv[2], std::atoi(argv[3]));
    if (mode == "history")
        return doHistory(argv[2]);
    return 2;
}
