// evalmon: in-process driver of RuntimeEvaluator for the thread-lifecycle part of C11 and the
// same-AST re-execution part of C18.
//
//   evalmon lifecycle <iterations> <seed>
//       construct -> execute -> destroy in a tight loop over programs that end normally, stop
//       with a runtime error at the first statement / inside a constructor / inside a destructor,
//       have no classes, are never executed, or are executed twice (single-use guard).  After
//       every iteration the timer threads started/exited counters must agree and the process
//       must have as many threads as before the loop.
//   evalmon reexec <file> <executions> [analyse-twice]
//       parse + analyse ONE Program, execute it <executions> times with fresh evaluators (what the
//       CLI's multi-shot mode does) printing each execution's echo output between markers.
#include <dirent.h>

#include <algorithm>

#include <chrono>
#include <cstdio>
#include <cstdlib>
#include <fstream>
#include <iostream>
#include <memory>
#include <sstream>
#include <string>
#include <thread>
#include <vector>

#include "bloch/compiler/lexer/lexer.hpp"
#include "bloch/compiler/parser/parser.hpp"
#include "bloch/compiler/semantics/semantic_analyser.hpp"
#include "bloch/runtime/runtime_evaluator.hpp"
#include "bloch/support/error/bloch_error.hpp"
#include "bloch/support/verif_hooks.hpp"

using namespace bloch;

static int threadCount() {
    int n = 0;
    if (DIR* d = opendir("/proc/self/task")) {
        while (dirent* e = readdir(d))
            if (e->d_name[0] != '.')
                ++n;
        closedir(d);
    }
    return n;
}

static std::unique_ptr<compiler::Program> parse(const std::string& src) {
    compiler::Lexer lx(src);
    auto toks = lx.tokenize();
    compiler::Parser ps(std::move(toks));
    auto prog = ps.parse();
    compiler::SemanticAnalyser an;
    an.analyse(*prog);
    return prog;
}

static const char* CLS =
    "class A { public int v; public A other; public constructor(int x) -> A { this.v = (int)(10 / x); "
    "return this; } public destructor() -> void { int z = 1 % this.v; } }\n";

static std::vector<std::pair<std::string, std::string>> programs() {
    std::vector<std::pair<std::string, std::string>> p;
    p.push_back({"normal-classes", std::string(CLS) +
                                       "function main() -> void { A a = new A(1); A b = new A(2); a.other = b; "
                                       "b.other = a; for (int i = 1; i < 40; i = i + 1) { A t = new A(i); } }"});
    p.push_back({"error-first-statement", std::string(CLS) + "function main() -> void { int x = 1 % 0; A a = new A(1); }"});
    p.push_back({"error-in-constructor", std::string(CLS) + "function main() -> void { A a = new A(1); A b = new A(0); }"});
    p.push_back({"error-in-destructor", std::string(CLS) + "function main() -> void { A a = new A(1); a.v = 0; destroy a; int y = 2; }"});
    p.push_back({"no-classes", "function main() -> void { int s = 0; for (int i = 0; i < 50; i = i + 1) { s = s + i; } }"});
    p.push_back({"long-running", std::string(CLS) +
                                     "function main() -> void { int s = 0; for (int i = 1; i < 3000; i = i + 1) { A t = new A(i); s = s + t.v; } }"});
    p.push_back({"qubits", std::string(CLS) + "function main() -> void { qubit q; h(q); bit b = measure q; A a = new A(1); }"});
    return p;
}

static void emitViolation(const std::string& key, const std::string& what) {
    std::printf("{\"violation\":1,\"key\":\"%s\",\"what\":\"%s\"}\n", key.c_str(),
                verif::jsonEscape(what).c_str());
}

static int lifecycle(long iterations, unsigned long seed) {
    auto progs = programs();
    std::vector<std::unique_ptr<compiler::Program>> parsed;
    for (auto& p : progs) parsed.push_back(parse(p.second));
    auto& h = verif::hooks();
    {
        // sanitizer runtimes start their own helper thread with the first std::thread
        std::thread warm([] {});
        warm.join();
    }
    // the warm-up thread (and a sanitizer helper that may still be winding down) can linger for a moment
    int baseThreads = threadCount();
    for (int k = 0; k < 20 && baseThreads > 1; ++k) {
        std::this_thread::sleep_for(std::chrono::milliseconds(10));
        baseThreads = std::min(baseThreads, threadCount());
    }
    long violations = 0;
    unsigned long x = seed * 2654435761ul + 12345;
    std::streambuf* old = std::cout.rdbuf();
    std::ostringstream sink;
    std::cout.rdbuf(sink.rdbuf());
    std::ostringstream errsink;
    std::streambuf* olderr = std::cerr.rdbuf(errsink.rdbuf());
    long distinct = 0;
    std::vector<bool> seen(progs.size() * 4, false);
    for (long it = 0; it < iterations; ++it) {
        x = x * 6364136223846793005ul + 1442695040888963407ul;
        size_t pi = (x >> 33) % progs.size();
        int mode = int((x >> 20) % 4);  // 0 execute, 1 never executed, 2 executed twice, 3 two evaluators
        if (!seen[pi * 4 + mode]) {
            seen[pi * 4 + mode] = true;
            distinct++;
        }
        // each execution needs a fresh AST only if the evaluator mutates it; the CLI reuses one
        try {
            if (mode == 1) {
                runtime::RuntimeEvaluator ev;
                (void)ev;
            } else if (mode == 3) {
                runtime::RuntimeEvaluator a;
                runtime::RuntimeEvaluator b;
                a.setEcho(false);
                b.setEcho(false);
                a.setWarnOnExit(false);
                b.setWarnOnExit(false);
                try {
                    a.execute(*parsed[pi]);
                } catch (const support::BlochError&) {
                }
                try {
                    b.execute(*parsed[pi]);
                } catch (const support::BlochError&) {
                }
            } else {
                runtime::RuntimeEvaluator ev;
                ev.setEcho(false);
                ev.setWarnOnExit(false);
                try {
                    ev.execute(*parsed[pi]);
                } catch (const support::BlochError&) {
                }
                if (mode == 2) {
                    try {
                        ev.execute(*parsed[pi]);
                    } catch (const support::BlochError&) {
                    }
                }
            }
        } catch (const std::exception& e) {
            emitViolation("gc:lifecycle:exception", std::string("unexpected exception: ") + e.what());
            violations++;
        }
        int started = h.timerStarted.load(), exited = h.timerExited.load();
        int threads = threadCount();
        if (started != exited) {
            std::cout.rdbuf(old);
            emitViolation("gc:thread-leak:" + progs[pi].first,
                          "after destroying the evaluator (program '" + progs[pi].first + "', mode " +
                              std::to_string(mode) + ") timer threads started=" + std::to_string(started) +
                              " exited=" + std::to_string(exited));
            std::cout.rdbuf(sink.rdbuf());
            violations++;
            break;
        }
        if (threads > baseThreads) {   // a leak is a thread too many (fewer: a helper thread of the runtime ended)
            std::cout.rdbuf(old);
            emitViolation("gc:thread-leak:process:" + progs[pi].first,
                          "process has " + std::to_string(threads) + " threads, had " +
                              std::to_string(baseThreads) + " before the loop (program '" + progs[pi].first + "')");
            std::cout.rdbuf(sink.rdbuf());
            violations++;
            break;
        }
    }
    std::cout.rdbuf(old);
    std::cerr.rdbuf(olderr);
    std::printf("{\"summary\":1,\"iterations\":%ld,\"started\":%d,\"exited\":%d,\"timer_requests\":%lu,"
                "\"distinct\":%ld}\n",
                iterations, h.timerStarted.load(), h.timerExited.load(),
                (unsigned long)h.timerRequests.load(), distinct);
    return 0;
}

static int reexec(const std::string& file, int n, bool analyseTwice) {
    std::ifstream in(file);
    std::string src((std::istreambuf_iterator<char>(in)), std::istreambuf_iterator<char>());
    std::unique_ptr<compiler::Program> prog;
    try {
        prog = parse(src);
        if (analyseTwice) {
            compiler::SemanticAnalyser again;
            again.analyse(*prog);
        }
    } catch (const support::BlochError& e) {
        std::printf("FRONTEND-ERROR %s\n", e.what());
        return 0;
    }
    for (int i = 0; i < n; ++i) {
        std::printf("BEGIN-EXEC %d\n", i);
        std::fflush(stdout);
        try {
            runtime::RuntimeEvaluator ev(i == n - 1);
            ev.setWarnOnExit(false);
            ev.execute(*prog);
            std::cout.flush();
            std::printf("TRACKED");
            std::vector<std::string> rows;
            for (auto& kv : ev.trackedCounts())
                for (auto& vv : kv.second) rows.push_back(kv.first + "=" + vv.first + ":" + std::to_string(vv.second));
            std::sort(rows.begin(), rows.end());
            for (auto& r : rows) std::printf(" %s", r.c_str());
            std::printf("\n");
        } catch (const support::BlochError& e) {
            std::cout.flush();
            std::string w = e.what();
            std::printf("ERROR line=%d %s", e.line, w.c_str());
        }
        std::printf("END-EXEC %d\n", i);
        std::fflush(stdout);
    }
    return 0;
}

int main(int argc, char** argv) {
    if (argc >= 4 && std::string(argv[1]) == "lifecycle")
        return lifecycle(std::atol(argv[2]), std::strtoul(argv[3], nullptr, 10));
    if (argc >= 4 && std::string(argv[1]) == "reexec")
        return reexec(argv[2], std::atoi(argv[3]), argc >= 5);
    std::fprintf(stderr, "usage: evalmon lifecycle N seed | reexec file N [analyse-twice]\n");
    return 2;
}
