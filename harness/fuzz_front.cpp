// libFuzzer target for the front end (C13): lexer -> parser -> semantic analyser in process,
// under ASan+UBSan.  Oracle, per input:
//   * no signal / sanitizer report / hang (libFuzzer -timeout)
//   * the only thing that may escape is a BlochError of category Lexical, Parse or Semantic
//   * ONE long-lived SemanticAnalyser is reused for every input; after each input it must still
//     give the reference answers on a fixed accepted probe and a fixed rejected probe
// Inputs whose bracket / prefix-operator / assignment-chain nesting exceeds 64 are skipped (the
// property bounds nesting depth; recursion depth in a recursive-descent parser is proportional).
#include <cstdint>
#include <cstdio>
#include <cstdlib>
#include <string>

#include "bloch/compiler/lexer/lexer.hpp"
#include "bloch/compiler/parser/parser.hpp"
#include "bloch/compiler/semantics/semantic_analyser.hpp"
#include "bloch/support/error/bloch_error.hpp"

using namespace bloch::compiler;
using bloch::support::BlochError;
using bloch::support::ErrorCategory;

static const char* GOOD_PROBE =
    "class P { public int v; public constructor() -> P = default; }\n"
    "function helper(int a) -> int { return a + 1; }\n"
    "function main() -> void { P p = new P(); int x = helper(2); echo(x); }\n";
static const char* BAD_PROBE = "function main() -> void { int x = 1; int x = 2; }\n";

static bool tooDeep(const uint8_t* d, size_t n) {
    int depth = 0, maxDepth = 0, run = 0, maxRun = 0, eqs = 0;
    for (size_t i = 0; i < n; ++i) {
        char c = char(d[i]);
        if (c == '(' || c == '[' || c == '{' || c == '<') {
            depth++;
            if (depth > maxDepth)
                maxDepth = depth;
        } else if (c == ')' || c == ']' || c == '}' || c == '>') {
            if (depth > 0)
                depth--;
        }
        if (c == '-' || c == '!' || c == '~') {
            run++;
            if (run > maxRun)
                maxRun = run;
        } else if (c != ' ' && c != '\t' && c != '\n')
            run = 0;
        if (c == '=' || c == '?')
            eqs++;
        if (c == ';')
            eqs = 0;
        if (eqs > 64)
            return true;
    }
    return maxDepth > 64 || maxRun > 64;
}

static int verdict(SemanticAnalyser& an, const std::string& src) {
    try {
        Lexer lx(src);
        auto toks = lx.tokenize();
        Parser ps(std::move(toks));
        auto prog = ps.parse();
        an.analyse(*prog);
        return 0;
    } catch (const BlochError& e) {
        return 1 + int(e.category);
    }
}

static long g_inputs = 0, g_accepted = 0, g_lex = 0, g_parse = 0, g_sem = 0, g_skipped = 0;

static void report() {
    std::fprintf(stderr, "VERIF-FUZZ-STATS inputs=%ld accepted=%ld lexical=%ld parse=%ld semantic=%ld "
                 "skipped_deep=%ld\n", g_inputs, g_accepted, g_lex, g_parse, g_sem, g_skipped);
}

extern "C" int LLVMFuzzerTestOneInput(const uint8_t* data, size_t size) {
    static SemanticAnalyser shared;
    static bool registered = (std::atexit(report), true);
    (void)registered;
    if (tooDeep(data, size)) {
        g_skipped++;
        return 0;
    }
    g_inputs++;
    std::string src(reinterpret_cast<const char*>(data), size);
    try {
        Lexer lx(src);
        auto toks = lx.tokenize();
        Parser ps(std::move(toks));
        auto prog = ps.parse();
        shared.analyse(*prog);
        g_accepted++;
    } catch (const BlochError& e) {
        if (e.category == ErrorCategory::Lexical)
            g_lex++;
        else if (e.category == ErrorCategory::Parse)
            g_parse++;
        else if (e.category == ErrorCategory::Semantic)
            g_sem++;
        else {
            std::fprintf(stderr, "VERIF-FUZZ-VIOLATION diag:category front end raised a %d-category "
                         "BlochError: %s\n", int(e.category), e.what());
            std::abort();
        }
    } catch (const std::exception& e) {
        std::fprintf(stderr, "VERIF-FUZZ-VIOLATION raw:exception %s\n", e.what());
        std::abort();
    }
    int g = verdict(shared, GOOD_PROBE);
    int b = verdict(shared, BAD_PROBE);
    if (g != 0 || b != 1 + int(ErrorCategory::Semantic)) {
        std::fprintf(stderr, "VERIF-FUZZ-VIOLATION analyser:state-leak good=%d bad=%d\n", g, b);
        std::abort();
    }
    return 0;
}
