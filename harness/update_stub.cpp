// No-op updater for CLI builds used by the monitors: the updater is irrelevant to every
// property but C20 (which compiles the real update_manager.cpp in its own harness) and would
// otherwise need httplib/OpenSSL and try to reach the network.
#include <string>
#include "bloch/update/update_manager.hpp"
namespace bloch::update {
    void checkForUpdatesIfDue(const std::string&) {}
    bool performSelfUpdate(const std::string&, const std::string&) { return false; }
}  // namespace bloch::update
