// frontdump: drives the real lexer / parser / module loader / analyser and prints what they
// produced in a machine-readable form (tokens, AST s-expression, merged module order, verdict).
//
//   frontdump tokens  <file>...        one JSON line per token, or an error line
//   frontdump ast     <file>...        s-expression of the parsed program (parens erased)
//   frontdump analyse <file>...        lex+parse+analyse one file (no module loader)
//   frontdump load    [-I dir]... [--analyse] <entry>   ModuleLoader::load (+ analyser)
//
// With several files every file is bracketed by "BEGIN <path>" / "END <path>" lines (flushed),
// so a crash can be attributed to the file being processed.  In `analyse` batch mode ONE
// SemanticAnalyser instance is reused for all files and, after every file, re-checked against a
// fixed accepted probe and a fixed rejected probe (the analyser must stay usable).
#include <cstdio>
#include <cstring>
#include <fstream>
#include <iostream>
#include <sstream>
#include <string>
#include <vector>

#include "bloch/compiler/ast/ast.hpp"
#include "bloch/compiler/import/module_loader.hpp"
#include "bloch/compiler/lexer/lexer.hpp"
#include "bloch/compiler/parser/parser.hpp"
#include "bloch/compiler/semantics/semantic_analyser.hpp"
#include "bloch/support/error/bloch_error.hpp"

using namespace bloch::compiler;
using bloch::support::BlochError;
using bloch::support::ErrorCategory;

static std::string esc(const std::string& s) {
    std::string o;
    for (unsigned char c : s) {
        if (c == '"' || c == '\\') {
            o.push_back('\\');
            o.push_back(char(c));
        } else if (c < 0x20 || c >= 0x7f) {
            char b[8];
            std::snprintf(b, sizeof b, "\\u%04x", c);
            o += b;
        } else
            o.push_back(char(c));
    }
    return o;
}

static const char* catName(ErrorCategory c) {
    switch (c) {
        case ErrorCategory::Lexical:
            return "Lexical";
        case ErrorCategory::Parse:
            return "Parse";
        case ErrorCategory::Semantic:
            return "Semantic";
        case ErrorCategory::Runtime:
            return "Runtime";
        default:
            return "Generic";
    }
}

static void printError(const BlochError& e) {
    std::string msg = e.what();
    // strip colour codes
    std::string plain;
    for (size_t i = 0; i < msg.size(); ++i) {
        if (msg[i] == '\033') {
            while (i < msg.size() && msg[i] != 'm') ++i;
            continue;
        }
        plain.push_back(msg[i]);
    }
    while (!plain.empty() && plain.back() == '\n') plain.pop_back();
    std::printf("{\"error\":\"%s\",\"line\":%d,\"col\":%d,\"msg\":\"%s\"}\n", catName(e.category),
                e.line, e.column, esc(plain).c_str());
}

static std::string readFile(const std::string& path) {
    std::ifstream in(path, std::ios::binary);
    return std::string((std::istreambuf_iterator<char>(in)), std::istreambuf_iterator<char>());
}

// ---------------------------------------------------------------------------------------------
struct Sexp : public ASTVisitor {
    std::string out;
    void sp() {
        if (!out.empty() && out.back() != '(' && out.back() != ' ')
            out.push_back(' ');
    }
    void open(const char* tag) {
        sp();
        out.push_back('(');
        out += tag;
    }
    void close() { out.push_back(')'); }
    void atom(const std::string& a) {
        sp();
        out += a;
    }
    template <class T>
    void sub(T* n) {
        if (n)
            n->accept(*this);
        else
            atom("nil");
    }
    template <class T>
    void sub(const std::unique_ptr<T>& n) {
        sub(n.get());
    }
    static const char* vis(Visibility v) {
        return v == Visibility::Public ? "public" : v == Visibility::Private ? "private"
                                                                            : "protected";
    }
    void annotations(const std::vector<std::unique_ptr<AnnotationNode>>& a) {
        for (auto& x : a) sub(x);
    }
    void params(const std::vector<std::unique_ptr<Parameter>>& ps) {
        open("params");
        for (auto& p : ps) sub(p);
        close();
    }

    void visit(VariableDeclaration& n) override {
        open("vardecl");
        if (n.isFinal)
            atom("final");
        if (n.isTracked)
            atom("tracked");
        sub(n.varType);
        atom(n.name);
        if (n.initializer)
            sub(n.initializer);
        close();
    }
    void visit(BlockStatement& n) override {
        open("block");
        for (auto& s : n.statements) sub(s);
        close();
    }
    void visit(ExpressionStatement& n) override {
        open("expr");
        sub(n.expression);
        close();
    }
    void visit(ReturnStatement& n) override {
        open("return");
        if (n.value)
            sub(n.value);
        close();
    }
    void visit(IfStatement& n) override {
        open("if");
        sub(n.condition);
        sub(n.thenBranch);
        if (n.elseBranch)
            sub(n.elseBranch);
        close();
    }
    void visit(ForStatement& n) override {
        open("for");
        sub(n.initializer);
        sub(n.condition);
        sub(n.increment);
        sub(n.body);
        close();
    }
    void visit(WhileStatement& n) override {
        open("while");
        sub(n.condition);
        sub(n.body);
        close();
    }
    void visit(EchoStatement& n) override {
        open("echo");
        sub(n.value);
        close();
    }
    void visit(ResetStatement& n) override {
        open("reset");
        sub(n.target);
        close();
    }
    void visit(MeasureStatement& n) override {
        open("measurestmt");
        sub(n.qubit);
        close();
    }
    void visit(DestroyStatement& n) override {
        open("destroy");
        sub(n.target);
        close();
    }
    void visit(TernaryStatement& n) override {
        open("ternary");
        sub(n.condition);
        sub(n.thenBranch);
        sub(n.elseBranch);
        close();
    }
    void visit(AssignmentStatement& n) override {
        open("assignstmt");
        atom(n.name);
        sub(n.value);
        close();
    }
    void visit(BinaryExpression& n) override {
        open("bin");
        atom(n.op);
        sub(n.left);
        sub(n.right);
        close();
    }
    void visit(UnaryExpression& n) override {
        open("un");
        atom(n.op);
        sub(n.right);
        close();
    }
    void visit(CastExpression& n) override {
        open("cast");
        sub(n.targetType);
        sub(n.expression);
        close();
    }
    void visit(PostfixExpression& n) override {
        open("post");
        atom(n.op);
        sub(n.left);
        close();
    }
    void visit(LiteralExpression& n) override {
        open("lit");
        atom(n.literalType);
        atom("\"" + esc(n.value) + "\"");
        close();
    }
    void visit(NullLiteralExpression&) override {
        open("null");
        close();
    }
    void visit(VariableExpression& n) override {
        open("var");
        atom(n.name);
        close();
    }
    void visit(CallExpression& n) override {
        open("call");
        sub(n.callee);
        for (auto& a : n.arguments) sub(a);
        close();
    }
    void visit(MemberAccessExpression& n) override {
        open("mem");
        sub(n.object);
        atom(n.member);
        close();
    }
    void visit(NewExpression& n) override {
        open("new");
        sub(n.classType);
        for (auto& a : n.arguments) sub(a);
        close();
    }
    void visit(ThisExpression&) override {
        open("this");
        close();
    }
    void visit(SuperExpression&) override {
        open("super");
        close();
    }
    void visit(IndexExpression& n) override {
        open("idx");
        sub(n.collection);
        sub(n.index);
        close();
    }
    void visit(ArrayLiteralExpression& n) override {
        open("arr");
        for (auto& e : n.elements) sub(e);
        close();
    }
    void visit(ParenthesizedExpression& n) override { sub(n.expression); }  // erased
    void visit(MeasureExpression& n) override {
        open("measure");
        sub(n.qubit);
        close();
    }
    void visit(AssignmentExpression& n) override {
        open("assign");
        atom(n.name);
        sub(n.value);
        close();
    }
    void visit(MemberAssignmentExpression& n) override {
        open("massign");
        sub(n.object);
        atom(n.member);
        sub(n.value);
        close();
    }
    void visit(ArrayAssignmentExpression& n) override {
        open("aassign");
        sub(n.collection);
        sub(n.index);
        sub(n.value);
        close();
    }
    void visit(PrimitiveType& n) override {
        open("prim");
        atom(n.name);
        close();
    }
    void visit(NamedType& n) override {
        open("named");
        std::string q;
        for (size_t i = 0; i < n.nameParts.size(); ++i) q += (i ? "." : "") + n.nameParts[i];
        atom(q);
        if (n.hasTypeArgumentList && n.typeArguments.empty())
            atom("diamond");
        for (auto& a : n.typeArguments) sub(a);
        close();
    }
    void visit(ArrayType& n) override {
        open("array");
        sub(n.elementType);
        if (n.sizeExpression)
            sub(n.sizeExpression);
        else
            atom(std::to_string(n.size));
        close();
    }
    void visit(VoidType&) override {
        open("void");
        close();
    }
    void visit(TypeParameter& n) override {
        open("tparam");
        atom(n.name);
        if (n.bound)
            sub(n.bound);
        close();
    }
    void visit(Parameter& n) override {
        open("param");
        sub(n.type);
        atom(n.name);
        close();
    }
    void visit(AnnotationNode& n) override {
        open("ann");
        atom(n.name);
        if (!n.value.empty())
            atom(n.value);
        close();
    }
    void visit(PackageDeclaration& n) override {
        open("package");
        for (auto& p : n.nameParts) atom(p);
        close();
    }
    void visit(ImportDeclaration& n) override {
        open("import");
        for (auto& p : n.packageParts) atom(p);
        if (n.isWildcard)
            atom("*");
        else if (n.symbol)
            atom(":" + *n.symbol);
        close();
    }
    void visit(FieldDeclaration& n) override {
        open("field");
        atom(vis(n.visibility));
        if (n.isStatic)
            atom("static");
        if (n.isFinal)
            atom("final");
        if (n.isTracked)
            atom("tracked");
        sub(n.fieldType);
        atom(n.name);
        if (n.initializer)
            sub(n.initializer);
        close();
    }
    void visit(MethodDeclaration& n) override {
        open("method");
        atom(vis(n.visibility));
        if (n.isStatic)
            atom("static");
        if (n.isVirtual)
            atom("virtual");
        if (n.isOverride)
            atom("override");
        if (n.hasQuantumAnnotation)
            atom("quantum");
        atom(n.name);
        params(n.params);
        sub(n.returnType);
        if (n.body)
            sub(n.body);
        else
            atom("nobody");
        close();
    }
    void visit(ConstructorDeclaration& n) override {
        open("ctor");
        atom(vis(n.visibility));
        params(n.params);
        if (n.isDefault)
            atom("default");
        else
            sub(n.body);
        close();
    }
    void visit(DestructorDeclaration& n) override {
        open("dtor");
        atom(vis(n.visibility));
        if (n.isDefault)
            atom("default");
        else
            sub(n.body);
        close();
    }
    void visit(ClassDeclaration& n) override {
        open("class");
        atom(n.name);
        if (n.isStatic)
            atom("static");
        if (n.isAbstract)
            atom("abstract");
        for (auto& t : n.typeParameters) sub(t);
        if (n.baseType) {
            open("extends");
            sub(n.baseType);
            close();
        }
        for (auto& m : n.members) sub(m);
        close();
    }
    void visit(FunctionDeclaration& n) override {
        open("function");
        atom(n.name);
        if (n.hasQuantumAnnotation)
            atom("quantum");
        if (n.hasShotsAnnotation) {
            for (auto& a : n.annotations)
                if (a && a->name == "shots")
                    atom("shots=" + a->value);
        }
        params(n.params);
        sub(n.returnType);
        sub(n.body);
        close();
    }
    void visit(Program& n) override {
        open("program");
        if (n.packageDecl)
            sub(n.packageDecl);
        for (auto& i : n.imports) sub(i);
        for (auto& c : n.classes) sub(c);
        for (auto& f : n.functions) sub(f);
        for (auto& s : n.statements) sub(s);
        close();
    }
};

// ---------------------------------------------------------------------------------------------
static const char* GOOD_PROBE =
    "class P { public int v; public constructor() -> P = default; }\n"
    "function helper(int a) -> int { return a + 1; }\n"
    "function main() -> void { P p = new P(); int x = helper(2); echo(x); }\n";
static const char* BAD_PROBE = "function main() -> void { int x = 1; int x = 2; }\n";

static std::string analyseVerdict(SemanticAnalyser& an, const std::string& src) {
    try {
        Lexer lx(src);
        auto toks = lx.tokenize();
        Parser ps(std::move(toks));
        auto prog = ps.parse();
        an.analyse(*prog);
        return "accepted";
    } catch (const BlochError& e) {
        return std::string(catName(e.category));
    }
}

static int doTokens(const std::string& path) {
    std::string src = readFile(path);
    try {
        Lexer lx(src);
        auto toks = lx.tokenize();
        for (auto& t : toks)
            std::printf("{\"t\":%d,\"v\":\"%s\",\"l\":%d,\"c\":%d}\n", int(t.type),
                        esc(t.value).c_str(), t.line, t.column);
    } catch (const BlochError& e) {
        printError(e);
    }
    return 0;
}

static int doAst(const std::string& path) {
    std::string src = readFile(path);
    try {
        Lexer lx(src);
        auto toks = lx.tokenize();
        Parser ps(std::move(toks));
        auto prog = ps.parse();
        Sexp s;
        prog->accept(s);
        std::printf("%s\n", s.out.c_str());
    } catch (const BlochError& e) {
        printError(e);
    }
    return 0;
}

static int doAnalyse(const std::string& path, SemanticAnalyser& an, bool probes) {
    std::string src = readFile(path);
    try {
        Lexer lx(src);
        auto toks = lx.tokenize();
        Parser ps(std::move(toks));
        auto prog = ps.parse();
        an.analyse(*prog);
        std::printf("{\"accepted\":1}\n");
    } catch (const BlochError& e) {
        printError(e);
    }
    if (probes) {
        std::string g = analyseVerdict(an, GOOD_PROBE);
        std::string b = analyseVerdict(an, BAD_PROBE);
        if (g != "accepted" || b != "Semantic")
            std::printf("{\"state_leak\":1,\"good\":\"%s\",\"bad\":\"%s\"}\n", g.c_str(), b.c_str());
    }
    return 0;
}

int main(int argc, char** argv) {
    if (argc < 3) {
        std::fprintf(stderr, "usage: frontdump tokens|ast|analyse|load ...\n");
        return 2;
    }
    std::string mode = argv[1];
    try {
        if (mode == "load") {
            std::vector<std::string> paths;
            bool analyse = false;
            std::string entry;
            for (int i = 2; i < argc; ++i) {
                std::string a = argv[i];
                if (a == "-I" && i + 1 < argc)
                    paths.push_back(argv[++i]);
                else if (a == "--analyse")
                    analyse = true;
                else
                    entry = a;
            }
            ModuleLoader loader(paths);
            for (int attempt = 0; attempt < 2; ++attempt)
            try {
                // the second attempt reuses the loader: load() starts from a clean slate, so the
                // same request must produce the same answer whatever the first one ended with
                auto prog = loader.load(entry);
                std::printf("{\"attempt\":%d,\"classes\":[", attempt);
                for (size_t i = 0; i < prog->classes.size(); ++i)
                    std::printf("%s\"%s\"", i ? "," : "", esc(prog->classes[i]->name).c_str());
                std::printf("],\"functions\":[");
                for (size_t i = 0; i < prog->functions.size(); ++i)
                    std::printf("%s\"%s\"", i ? "," : "", esc(prog->functions[i]->name).c_str());
                std::printf("],\"statements\":%zu,\"shots\":[%d,%d]}\n", prog->statements.size(),
                            prog->shots.first ? 1 : 0, prog->shots.second);
                if (analyse && attempt == 0) {
                    SemanticAnalyser an;
                    an.analyse(*prog);
                    std::printf("{\"accepted\":1}\n");
                }
            } catch (const BlochError& e) {
                printError(e);
            }
            return 0;
        }
        std::vector<std::string> files;
        for (int i = 2; i < argc; ++i) {
            std::string a = argv[i];
            if (a == "--list" && i + 1 < argc) {
                std::ifstream in(argv[++i]);
                std::string line;
                while (std::getline(in, line))
                    if (!line.empty())
                        files.push_back(line);
            } else
                files.push_back(a);
        }
        bool batch = files.size() > 1;
        SemanticAnalyser shared;
        for (auto& f : files) {
            if (batch) {
                std::printf("BEGIN %s\n", f.c_str());
                std::fflush(stdout);
            }
            try {
                if (mode == "tokens")
                    doTokens(f);
                else if (mode == "ast")
                    doAst(f);
                else if (mode == "analyse")
                    doAnalyse(f, shared, true);
            } catch (const BlochError& e) {
                printError(e);
            } catch (const std::exception& e) {
                // anything that is not a BlochError escaping the front end is a C13 violation
                std::printf("{\"raw_exception\":\"%s\"}\n", esc(e.what()).c_str());
            }
            if (batch) {
                std::printf("END %s\n", f.c_str());
                std::fflush(stdout);
            }
        }
    } catch (const std::exception& e) {
        // anything that is not a BlochError escaping the front end is a C13 violation
        std::printf("{\"raw_exception\":\"%s\"}\n", esc(e.what()).c_str());
        std::fflush(stdout);
        return 3;
    }
    return 0;
}
