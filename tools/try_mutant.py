#!/usr/bin/env python3
"""Apply a seeded change to /repo, run the given checks, undo the change.

usage: tools/try_mutant.py <patch.diff> <C01[,C02...]> [--tier quick|thorough] [--seed N]
Prints one line per check: id, exit code, violation keys.  /repo is always restored."""
import os
import re
import subprocess
import sys

REPO = os.environ.get("VERIF_REPO", "/repo")
HERE = os.path.dirname(os.path.dirname(os.path.abspath(__file__)))


def sh(*a, **k):
    return subprocess.run(a, capture_output=True, text=True, **k)


def clean():
    r = sh("git", "-C", REPO, "status", "--porcelain", "--untracked-files=no")
    return r.stdout.strip() == ""


def main():
    patch = os.path.abspath(sys.argv[1])
    checks = sys.argv[2].split(",")
    tier = "quick"
    seed = "1"
    if "--tier" in sys.argv:
        tier = sys.argv[sys.argv.index("--tier") + 1]
    if "--seed" in sys.argv:
        seed = sys.argv[sys.argv.index("--seed") + 1]
    if not clean():
        print("REFUSING: /repo has uncommitted changes")
        return 2
    r = sh("git", "-C", REPO, "apply", patch)
    if r.returncode != 0:
        r = sh("git", "-C", REPO, "apply", "--3way", patch)
        if r.returncode != 0:
            print("PATCH DOES NOT APPLY:", r.stderr[-500:])
            sh("git", "-C", REPO, "reset", "-q")
            sh("git", "-C", REPO, "checkout", "--", ".")
            if REPO != "/repo":
                sh("git", "-C", REPO, "reset", "-q", "--hard")
            return 2
    caught = []
    try:
        for c in checks:
            env = dict(os.environ, VERIF_SEED=seed)
            p = sh(os.path.join(HERE, "check"), c, "--tier", tier, cwd=HERE, env=env)
            keys = re.findall(r"^VIOLATION property=\S+ replay=\S+ key=(\S+)", p.stdout, re.M)
            inc = re.findall(r"^INCONCLUSIVE .*", p.stdout, re.M)
            print("%s exit=%d violations=%s%s" % (c, p.returncode, keys[:6], (" inconclusive=%s" % inc[:2]) if inc else ""))
            if p.returncode == 1:
                caught.append(c)
    finally:
        sh("git", "-C", REPO, "reset", "-q")
        sh("git", "-C", REPO, "checkout", "--", ".")
        if REPO != "/repo":
            sh("git", "-C", REPO, "reset", "-q", "--hard")    # a scratch worktree: also clears a failed 3-way merge
    print("CAUGHT-BY:", ",".join(caught) if caught else "none")
    return 0 if clean() else 3


if __name__ == "__main__":
    sys.exit(main())
