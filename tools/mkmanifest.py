#!/usr/bin/env python3
"""Regenerates /verif/MANIFEST.json from the table below (keeps the file valid at all times)."""
import json
import os
import subprocess

HERE = os.path.dirname(os.path.dirname(os.path.abspath(__file__)))

# id -> (category, technique, text, note, design_ref)
CHECKS = {
    "C01": ("exploration", "online reference-simulator monitor on simulator hooks (exhaustive basis block + random circuits) and offline trace checker over generated programs; ASan/UBSan on a slice",
            "Every gate application observed (all gates x targets x basis states for n<=7/10, dense random circuits, generated programs through every naming path) equals the defining unitary up to a global phase within 1e-9. Exploration: sampled angles and states, exhaustive only over the basis block.",
            "Trusts the BLOCH_VERIF amplitude accessor and the two independent reference simulators (C++ scatter form, Python).", "DESIGN.md 3/C01"),
    "C02": ("exploration", "online monitor at measure (support, collapse, re-read), scripted draw grid (threshold law), boundary draws, seeded production RNG frequencies; trace checker over generated programs for echo/tracked views",
            "Every measurement observed has support, collapses to the normalised projection and re-reads identically; outcome frequency follows p1 exactly on a draw grid and within 6 sigma with the real RNG.",
            "Draw injection through the guarded hook; statistical part is per seed.", "DESIGN.md 3/C02"),
    "C03": ("exploration", "invariant monitor at every simulator operation over hostile histories; handle-lifetime model stepped against the trace of generated programs",
            "After every operation of every generated history the state has 2^n finite amplitudes and unit norm, allocation preserves the old state, and no allocation returns an index that is still reachable (one known finding listed).",
            "Handle reachability is the generator's lexical knowledge; straight-line single-reference object programs.", "DESIGN.md 3/C03"),
    "C04": ("exploration", "online monitor enumerating the reset's own draw on copies of the simulator and comparing the averaged reduced density matrix; seeded multi-shot partner statistics through the CLI",
            "For every state/target explored the reset leaves the target in |0> and the draw-averaged reduced state of the other qubits unchanged (2/K + 1e-9); partner statistics through statement/function/destroy/reuse paths stay within 6 sigma.",
            "K-point draw grid assumes reset consumes at most one draw.", "DESIGN.md 3/C04"),
    "C13": ("exploration", "coverage-guided fuzzing (libFuzzer) under ASan+UBSan with an in-process oracle (exception category, reused-analyser probes), systematic token-edit/truncation/noise enumeration through an ASan harness, CLI diagnostic-shape monitor",
            "On every input executed the front end terminated with acceptance or exactly one Lexical/Parse/Semantic diagnostic, no sanitizer report, no raw exception, and the reused analyser stayed usable.",
            "Byte strings are sampled (fuzz) or enumerated only as single-token edits of the seeds; nesting depth <= 64.", "DESIGN.md 3/C13"),
    "C14": ("exploration", "render/parse round trip: generated syntax trees rendered with minimal and with redundant parentheses, real lexer+parser run under ASan, AST walked through the public visitor and compared with the generator's tree",
            "Every generated tree over the documented constructs (all operator pairs exhaustively; random expressions, statements, functions, classes) parsed back to the same tree.",
            "Trusts the generator's reading of docs/grammar.md; undocumented/ambiguous forms are kept out and listed.", "DESIGN.md 3/C14"),
    "C15": ("exploration", "token-canvas oracle over the public Lexer API: reported (text,line,column) painted onto a canvas must reproduce the source; diagnostic-position probes; run under ASan",
            "For every accepted source generated (random token/separator sequences, multi-line strings/chars, munch pairs, single-character edits of the examples) token texts at their reported positions reproduce the source, and parse diagnostics point at the offending token.",
            "Columns count characters; lexer-rejected inputs are out of scope (C13).", "DESIGN.md 3/C15"),
    "C19": ("exploration", "reference-model differential: random module trees on disk, real ModuleLoader (ASan) vs a reference implementation of the documented resolution algorithm",
            "For every generated tree/entry/search-path/cwd configuration the merged class and function order, or the diagnostic kind and category, equals the documented algorithm's.",
            "Reference implements docs/language/semantics.md + language-guide.md; three undocumented corner cases kept out.", "DESIGN.md 3/C19"),
    "C07": ("exploration", "reference-interpreter differential: type-directed generated programs run on the ASan+UBSan CLI, stdout / first runtime error (kind, line) compared with an independent interpreter written from the docs",
            "Every generated program over the documented classical core printed exactly what the reference interpreter computed, or raised the runtime error it predicted at the same line.",
            "Reference = vlib/gen_classical.py; ranges where the docs do not fix the result are kept out and listed in the evidence.", "DESIGN.md 3/C07"),
    "C12": ("exploration", "crash oracle over ASan+UBSan CLI executions (signal / sanitizer report / raw-exception text / extra diagnostic lines) on a union workload: hostile edge-value templates, generated classical, quantum and class programs",
            "Every accepted program executed ended with status 0 or one 'Runtime error' diagnostic; no signal, no ASan report, no crash-class UBSan report, no raw C++ exception text.",
            "A clean sanitizer run is not memory safety (intra-object overflows, reuse after quarantine are invisible); value-UB is reported, not judged.", "DESIGN.md 3/C12"),
    "C08": ("exploration", "reference-model differential over traced class programs: every constructor, field initialiser, method and destructor echoes a tag; the trace is compared with a model of the documented object-model rules (ASan+UBSan CLI, collections masked)",
            "Every generated class program printed exactly the trace the reference model of the documented rules predicts (construction order, virtual dispatch, super calls, static overload choice, statics, generic specialisations, destructor order and timing).",
            "Reference = vlib/gen_classes.py written from docs/bloch_class_system.md; single-reference objects; bag comparison for same-scope destructor order.", "DESIGN.md 3/C08"),
    "C09": ("exploration", "metamorphic differential on executions: each generated program runs beside capture-avoiding alpha-renamings of one unit's locals/parameters onto fresh names, other units' locals, instance-field names and static-field names; stdout/status compared (ASan+UBSan CLI)",
            "No capture-avoiding renaming of a local or parameter explored changed the program's output or termination status.",
            "Renamings are capture-avoiding by construction (generator owns name resolution); integer-state programs with two classes.", "DESIGN.md 3/C09"),
    "C10": ("exploration", "metamorphic differential on executions: permutations of the top-level declarations (exhaustive up to 5 declarations, reversal/rotations/shuffles beyond) of generated class and classical programs; verdict, stdout and status compared (ASan+UBSan CLI)",
            "Every permutation of top-level declarations explored was accepted or rejected exactly like the generation order and printed the same output.",
            "Reference outcome = dependencies-first order; single-file programs (module merge order is C19).", "DESIGN.md 3/C10"),
    "C16": ("exploration", "template matrix rule x syntactic position, each cell a (violating, repaired twin) pair embedded in surrounding programs; real lexer+parser+analyser under ASan; expected Semantic vs accepted",
            "Every rule of the matrix was rejected with a Semantic diagnostic in every position of the matrix and its repaired twin was accepted (exhaustive over the matrix, sampled over surroundings).",
            "The matrix (111 rules x 34 positions where applicable) is listed in vlib/props/c16.py; category only.", "DESIGN.md 3/C16"),
    "C11": ("exploration", "forced collection schedules through a guarded statement-boundary hook (none/all/every single boundary/random subsets) with an external-holder audit inside the collector; ThreadSanitizer build with a 50-500 us real timer; in-process evaluator lifecycle loops (TSan, ASan) counting timer threads",
            "Under every schedule explored (exhaustive over single collections up to the cap, sampled beyond) output and status equalled the no-collection run and no collection wiped an object still held by the interpreter; no ThreadSanitizer report with the real timer at thousands of distinct boundaries; timer threads started == exited after every evaluator lifetime.",
            "Schedules = subsets of statement boundaries (the only polling point); TSan sees all synchronisation involved; bounded restatement of 'always stopped'.", "DESIGN.md 3/C11"),
    "C05": ("translation_validation", "per-program validation of the emitted OpenQASM against the execution that produced it: strict reader for the emitted subset, one-for-one comparison with the traced simulator operations, replay on an independent interpreter with recorded outcomes vs the simulator's final amplitudes, file vs stdout",
            "Every listing produced was well formed, listed exactly the operations performed in order, and replayed (with the recorded measure/reset outcomes) to the simulator's final state within the printing precision; the .qasm file equalled --emit-qasm.",
            "Ground truth for 'operations performed' is the guarded simPost trace; reader covers only the emitted subset.", "DESIGN.md 3/C05"),
    "C06": ("exploration", "trace-stepped state machine: generated access-path programs with deliberate misuse; the model's first operation on a measured qubit must be a located Runtime error with no simulator operation; boundary audit of evaluator vs simulator measured flags",
            "Every generated sequence behaved as the {active, measured} model predicts: refusals exactly at the first operation on a measured qubit (right line, nothing reached the simulator), never on an active or reset qubit, flags agreed at every statement boundary.",
            "Error line = line of the built-in call reached (inside helpers); flags audited through the guarded boundary hook.", "DESIGN.md 3/C06"),
    "C17": ("exploration", "offline conservation checker over recorded histories: per-execution tracked records matched against the scope-exit model, aggregate table = sum of per-shot records, probability arithmetic, shot-count precedence, echo policy (plain build, seeded RNG)",
            "For every program/configuration explored each scope or owner exit produced exactly one record with the right outcome string, the table equalled the sum of the per-shot records, probabilities were count/total in [0,1] summing to 1, @shots beat --shots and echo followed the documented policy.",
            "Outcomes adopted from the trace; '--echo=none' treated as explicit suppression.", "DESIGN.md 3/C17"),
    "C18": ("exploration", "differential over recorded event streams: shot k of one multi-shot process vs a fresh process seeded identically (guarded per-execution reseeding), plus in-process re-execution of one Program analysed once and twice (ASan)",
            "Every shot of every multi-shot run explored produced the same simulator operations, allocations, echo lines, tracked records, boundary count and error as a fresh single-shot process with the same draws; analysing twice changed nothing.",
            "Reseeding hook gives identical draws; elapsed time and warnings ignored.", "DESIGN.md 3/C18"),
    "C20": ("exploration", "in-process monitor over the real update_manager.cpp (included into an ASan+UBSan harness) with a virtual clock and scripted network through guarded override slots; reference predicates in Python (big-integer version order, exact checksum field match, sliding-window history checker)",
            "Over all version pairs of the pool, all generated checksum files and all invocation histories explored: comparison agreed with numeric order, nothing was announced/installed unless both versions parsed and the latest was strictly newer, no version string crashed, the checksum came from the asset's own line, and no two notices fell inside 72 h nor any with checks disabled.",
            "No real HTTPS/tar/binary replacement (no network); acting = download function called.", "DESIGN.md 3/C20"),
}

NOT_YET = {}


def main():
    with open(os.path.join(HERE, "properties.jsonl")) as f:
        props = [json.loads(l)["id"] for l in f if l.strip()]
    na_path = os.path.join(HERE, "tools", "not_applicable.json")
    na = json.load(open(na_path)) if os.path.exists(na_path) else {}
    try:
        commits = subprocess.run(["git", "-C", "/repo", "log", "--format=%h %s"], capture_output=True,
                                 text=True).stdout.splitlines()
        hook_commits = [c.split(" ")[0] for c in commits if c.split(" ", 1)[1].startswith("verif hooks")]
    except Exception:
        hook_commits = []
    checks = []
    for pid in props:
        if pid not in CHECKS:
            continue
        cat, tech, text, note, ref = CHECKS[pid]
        checks.append(dict(property_id=pid,
                           quick_cmd="./check %s --tier quick" % pid,
                           thorough_cmd="./check %s --tier thorough" % pid,
                           evidence_file="evidence/%s.json" % pid,
                           replay_cmd_template="./check %s --replay {path}" % pid,
                           engine="check",
                           level_claimed=dict(category=cat, text=text, design_ref=ref),
                           level_note=note, technique=tech))
    m = dict(version=1,
             setup_cmd="python3 -m compileall -q vlib check >/dev/null && mkdir -p build evidence scratch",
             hooks=dict(guard="BLOCH_VERIF",
                        enable="checks compile /repo/src directly with g++/clang++ -DBLOCH_VERIF per sanitizer flavour (vlib/build.py); hooks are configured by BLOCH_VERIF_* environment variables or C++ callback slots",
                        baseline_off_cmd="sh tools/repotest.sh",
                        source_commits=hook_commits, add_only=True),
             engines=[dict(name="check", path="check", serves_properties=[c["property_id"] for c in checks],
                           kind_free_text="runtime monitoring: sanitizer builds (ASan+UBSan, TSan, libFuzzer) of the real sources, C++ monitors on guarded hooks, Python reference models over recorded traces")],
             checks=checks,
             notes="Runtime monitoring and sanitizers only. exit 0 held / 1 violation / 2 inconclusive. Known findings: known_findings.jsonl.",
             not_applicable=[dict(property_id=p, reason=na.get(p, "check not built yet in this session (planned, see DESIGN.md section 3)"))
                             for p in props if p not in CHECKS])
    with open(os.path.join(HERE, "MANIFEST.json"), "w") as f:
        json.dump(m, f, indent=1)
    print("MANIFEST.json: %d checks, %d not_applicable" % (len(checks), len(m["not_applicable"])))


if __name__ == "__main__":
    main()
