#!/bin/sh
# Confirm a seeded change in its own scratch worktree: with the patch the project builds, the 288
# tests pass and the demonstration fails; without it the demonstration passes.
# usage: tools/confirm_mutant.sh <worktree> <k>
set -u
W=$1; K=$2
cd "$W" || exit 2
git checkout -q -- . || exit 2
git apply "out/patch$K.diff" || { echo "CONFIRM patch$K: does not apply"; exit 1; }
cmake --build _build -j8 >/dev/null 2>&1 || { echo "CONFIRM patch$K: BUILD FAILS"; git checkout -q -- .; exit 1; }
T=$(./_build/bin/bloch_tests 2>/dev/null | tail -1)
ARG="$W/_build/bin/bloch"; ARG2=""
if grep -qiE "source[- ]tree|source tree|<tree>|SRC=" "out/demo$K.sh"; then ARG="$W"; ARG2="$W/_build/bin/bloch"; fi
bash "out/demo$K.sh" "$ARG" $ARG2 >/tmp/confirm_with.$$ 2>&1; WITH=$?
git checkout -q -- .
cmake --build _build -j8 >/dev/null 2>&1
bash "out/demo$K.sh" "$ARG" $ARG2 >/tmp/confirm_without.$$ 2>&1; WITHOUT=$?
echo "CONFIRM $(basename $W) patch$K: tests='$T' demo_with_patch_exit=$WITH demo_without_patch_exit=$WITHOUT"
rm -f /tmp/confirm_with.$$ /tmp/confirm_without.$$
[ "$WITH" != 0 ] && [ "$WITHOUT" = 0 ] && echo "$T" | grep -q "288 tests passed, 0 failed"
