#!/usr/bin/env python3
"""Re-run the owning check (and the other checks recorded in meta.json) against every seeded
change with the current machinery and refresh meta.json.

usage: tools/seed_matrix.py [--seeds 1,2] [--only C01-1,C02-3] [--owner-only]
Honours VERIF_REPO / VERIF_BUILD / VERIF_OUTROOT (development side instance)."""
import glob
import json
import os
import re
import subprocess
import sys

HERE = os.path.dirname(os.path.dirname(os.path.abspath(__file__)))
REPO = os.environ.get("VERIF_REPO", "/repo")


def main():
    seeds = ["1"]
    only = None
    owner_only = "--owner-only" in sys.argv
    if "--seeds" in sys.argv:
        seeds = sys.argv[sys.argv.index("--seeds") + 1].split(",")
    if "--only" in sys.argv:
        only = set(sys.argv[sys.argv.index("--only") + 1].split(","))
    head = subprocess.run(["git", "-C", REPO, "rev-parse", "--short", "HEAD"], capture_output=True, text=True).stdout.strip()
    for p in sorted(glob.glob(os.path.join(HERE, "seeded", "*", "meta.json"))):
        m = json.load(open(p))
        if only and m["id"] not in only:
            continue
        checks = [m["property"]]
        if not owner_only:
            checks += [c for c in sorted(set(list(m.get("caught_by", {})) + list(m.get("missed_by", [])))) if c != m["property"]]
        per_seed = {}
        for sd in seeds:
            r = subprocess.run([sys.executable, os.path.join(HERE, "tools", "try_mutant.py"),
                                os.path.join(os.path.dirname(p), "patch.diff"), ",".join(checks if sd == seeds[0] else checks[:1]),
                                "--seed", sd], capture_output=True, text=True)
            res = {}
            for mo in re.finditer(r"^(C\d\d) exit=(\d+) violations=(\[.*?\])", r.stdout, re.M):
                res[mo.group(1)] = dict(exit=int(mo.group(2)), keys=eval(mo.group(3)))
            if "DOES NOT APPLY" in r.stdout or "REFUSING" in r.stdout:
                print(m["id"], "seed", sd, r.stdout.strip()[:200], flush=True)
                res = None
            per_seed[sd] = res
        first = per_seed[seeds[0]]
        if first is not None and "--no-write" not in sys.argv:
            m["caught_by"] = {c: v["keys"] for c, v in first.items() if v["exit"] == 1}
            m["missed_by"] = [c for c, v in first.items() if v["exit"] != 1]
            m["checks_run"] = ("tools/try_mutant.py seeded/%s/patch.diff %s   (git apply to the tree; ./check <id> --tier quick, "
                               "VERIF_SEED=%s; git checkout -- .) at %s" % (m["id"], ",".join(checks), seeds[0], head))
            others = {sd: (sorted(v) if v is not None and all(x["exit"] == 1 for x in v.values()) else "MISSED")
                      for sd, v in per_seed.items() if sd != seeds[0]}
            if others:
                m["owner_check_other_seeds"] = {sd: ("caught" if o != "MISSED" else "missed") for sd, o in others.items()}
            with open(p, "w") as f:
                json.dump(m, f, indent=1)
                f.write("\n")
        print(m["id"], {sd: ({c: v["exit"] for c, v in r.items()} if r else None) for sd, r in per_seed.items()}, flush=True)


if __name__ == "__main__":
    main()
