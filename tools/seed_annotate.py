#!/usr/bin/env python3
"""Record in seeded/<id>/meta.json which strengthening of a check was needed to catch the change."""
import json
import os
import sys

HERE = os.path.dirname(os.path.dirname(os.path.abspath(__file__)))
NOTES = {
    "C02-1": "qlang: the @tracked view is compared with the traced outcome under C02's own key (measure:views:tracked)",
    "C04-2": "CLI reset statistics: 'zero:' variants - a recycled index must never read 1",
    "C05-2": "source file names with dots and dotted directories; new key qasm:file-location",
    "C06-2": "every third case also runs with --shots=2",
    "C07-1": "minimal-parentheses rendering (precedence decides the tree) and 2500 programs in the quick tier",
    "C07-2": "functions whose loops return early (for/while/forcall with a stepping call in the update clause)",
    "C08-1": "overload 'diamonds' in the overload holder (a later, strictly better candidate after two tied ones)",
    "C08-2": "inherited static counter bumped through base and derived names",
    "C09-2": "loop bodies that return; loop counters tracked so that renamings stay capture-free",
    "C10-1": "rule programs (C16's program rules + hand-written order-sensitive shapes) under declaration permutations",
    "C10-2": "qualified base-class names (pkg.Base, a.b.Base) in permuted programs",
    "C12-2": "hostile templates with generic statics (self-referring and chained)",
    "C13-1": "random inheritance cycles (length 1-4) with 0-3 classes leading into them, random names/order; SIGXCPU counted as a hang",
    "C16-1": "write-access rules: private/protected fields and statics written from subclasses and unrelated classes",
    "C16-2": "final-field writes in for-init/for-update/loop bodies/nested blocks of constructors",
    "C18-2": "deterministic classical family (name-shadowing generics, C08 and C07 generators) where every shot must equal one fresh run",
}
NOTES.update(json.load(open(os.path.join(HERE, "seeded", "strengthened.json"))) if os.path.exists(
    os.path.join(HERE, "seeded", "strengthened.json")) else {})
for sid, note in NOTES.items():
    p = os.path.join(HERE, "seeded", sid, "meta.json")
    if not os.path.exists(p):
        continue
    m = json.load(open(p))
    m["strengthened"] = note
    json.dump(m, open(p, "w"), indent=1)
    open(p, "a").write("\n")
print("annotated")
