#!/bin/sh
# Builds bloch-labs/bloch with the verification guard OFF (the repository's own cmake build) and
# runs its test suite. Used as MANIFEST.hooks.baseline_off_cmd.
set -e
REPO=${VERIF_REPO:-/repo}
cmake -G Ninja -S "$REPO" -B "$REPO/_build" >/dev/null
cmake --build "$REPO/_build" -j16 >/dev/null
ctest --test-dir "$REPO/_build" -j8 --timeout 900 --output-on-failure
"$REPO/_build/bin/bloch_tests" | tail -1
