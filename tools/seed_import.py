#!/usr/bin/env python3
"""Import confirmed seeded changes from a sub-agent's scratch worktree into /verif/seeded/<id>/.

usage: tools/seed_import.py <mutroot> <Cxx:k[:extra,extra]>...
For each change: regenerate the patch against /repo HEAD, copy the demonstration files and notes,
run the owning check (and the extra ones) against the patched tree with tools/try_mutant.py and
write meta.json.  /repo is restored after every run.  The change must already have been confirmed
with tools/confirm_mutant.sh (tests pass, demo fails with / passes without the patch)."""
import json
import os
import re
import shutil
import subprocess
import sys

REPO = os.environ.get("VERIF_REPO", "/repo")
HERE = os.path.dirname(os.path.dirname(os.path.abspath(__file__)))


def sh(*a, **k):
    return subprocess.run(a, capture_output=True, text=True, **k)


def section(notes, title):
    m = re.search(r"^##\s*%s.*?\n(.*?)(?=^##\s|\Z)" % title, notes, re.M | re.S | re.I)
    return m.group(1).strip() if m else ""


def main():
    root = sys.argv[1]
    head = sh("git", "-C", REPO, "rev-parse", "--short", "HEAD").stdout.strip()
    for spec in sys.argv[2:]:
        parts = spec.split(":")
        prop, k = parts[0], parts[1]
        extras = parts[2].split(",") if len(parts) > 2 and parts[2] else []
        out = os.path.join(root, prop, "out")
        sid = "%s-%s" % (prop, parts[3] if len(parts) > 3 else k)
        dest = os.path.join(HERE, "seeded", sid)
        os.makedirs(dest, exist_ok=True)
        # patch against HEAD
        assert sh("git", "-C", REPO, "status", "--porcelain", "--untracked-files=no").stdout.strip() == ""
        src_patch = os.path.join(out, "patch%s.diff" % k)
        if os.path.exists(os.path.join(out, "patch%s.head.diff" % k)):
            # the delivered patch no longer applies after a repair touched the same lines: ported by hand
            src_patch = os.path.join(out, "patch%s.head.diff" % k)
        r = sh("git", "-C", REPO, "apply", src_patch)
        if r.returncode != 0:
            r = sh("git", "-C", REPO, "apply", "--3way", src_patch)
        if r.returncode != 0:
            print(sid, "PATCH DOES NOT APPLY", r.stderr[-300:])
            sh("git", "-C", REPO, "checkout", "--", ".")
            continue
        sh("git", "-C", REPO, "reset", "-q")
        diff = sh("git", "-C", REPO, "diff").stdout
        sh("git", "-C", REPO, "checkout", "--", ".")
        with open(os.path.join(dest, "patch.diff"), "w") as f:
            f.write(diff)
        files = []
        for fn in sorted(os.listdir(out)):
            if fn.endswith(".qasm") or fn.startswith(("patch", "notes", "note")):
                continue
            if fn.startswith("demo%s" % k) or not fn.startswith("demo"):
                if os.path.isdir(os.path.join(out, fn)):
                    shutil.copytree(os.path.join(out, fn), os.path.join(dest, fn), dirs_exist_ok=True)
                else:
                    shutil.copy(os.path.join(out, fn), os.path.join(dest, fn))
                files.append(fn)
        npath = os.path.join(out, "notes%s.md" % k)
        if not os.path.exists(npath):
            # round 6 delivered a plain noteK.txt: the whole note is what is needed to manifest
            txt = open(os.path.join(out, "note%s.txt" % k)).read().strip()
            notes = "# %s change %s - %s\n\n## What is needed\n%s\n" % (prop, k, txt.split("\n", 1)[0][:140], txt)
        else:
            notes = open(npath).read()
        with open(os.path.join(dest, "notes.md"), "w") as f:
            f.write(notes)
        checks = [prop] + extras
        p = sh(sys.executable, os.path.join(HERE, "tools", "try_mutant.py"), os.path.join(dest, "patch.diff"),
               ",".join(checks))
        caught = {}
        for m in re.finditer(r"^(C\d\d) exit=(\d+) violations=(\[.*?\])", p.stdout, re.M):
            caught[m.group(1)] = dict(exit=int(m.group(2)), violation_keys=eval(m.group(3)))
        wt = sh("git", "-C", os.path.join(root, prop), "rev-parse", "--short", "HEAD").stdout.strip()
        meta = dict(
            id=sid, property=prop,
            title=notes.split("\n", 1)[0].lstrip("# ").strip(),
            site=sorted(set(re.findall(r"^\+\+\+ b/(\S+)", diff, re.M))),
            needs_to_manifest=section(notes, "What is needed"),
            why_it_breaks=section(notes, "Why it breaks"),
            demonstration=files,
            confirmed=dict(
                how="tools/confirm_mutant.sh %s %s (scratch worktree of /repo at %s, removed afterwards)" % (
                    os.path.join(root, prop), k, wt),
                with_patch="project builds, _build/bin/bloch_tests: 288 tests passed, 0 failed; demo%s.sh exits 1" % k,
                without_patch="demo%s.sh exits 0" % k),
            checks_run="tools/try_mutant.py seeded/%s/patch.diff %s   (git -C /repo apply; ./check <id> --tier quick, "
                       "VERIF_SEED=1; git -C /repo checkout -- .) on /repo at %s" % (sid, ",".join(checks), head),
            caught_by={c: v["violation_keys"] for c, v in caught.items() if v["exit"] == 1},
            missed_by=[c for c, v in caught.items() if v["exit"] != 1])
        with open(os.path.join(dest, "meta.json"), "w") as f:
            json.dump(meta, f, indent=1)
            f.write("\n")
        print(sid, "caught_by=%s missed_by=%s" % (sorted(meta["caught_by"]), meta["missed_by"]), flush=True)


if __name__ == "__main__":
    main()
