#!/usr/bin/env python3
"""Regenerate the per-property coverage snapshot in DESIGN.md (between COVERAGE-TABLE markers) from the
evidence files of the last runs."""
import glob
import json
import os
import re

HERE = os.path.dirname(os.path.dirname(os.path.abspath(__file__)))
rows = []
for p in sorted(glob.glob(os.path.join(HERE, "evidence", "C*.json"))):
    d = json.load(open(p))
    cov = d.get("coverage", {})
    mon = d.get("monitors") or cov.get("monitors") or d.get("counters") or {}
    top = sorted(((k, v) for k, v in mon.items() if isinstance(v, (int, float)) and not k.startswith("asan_op_") and not k.startswith("op_")),
                 key=lambda kv: -kv[1])[:5]
    rows.append("| %s | %s | %s | %s | %s | %s |" % (
        d.get("property_id"), d.get("tier"), cov.get("evaluations"), cov.get("distinct_nontrivial"),
        d.get("violations", 0), ", ".join("%s=%s" % kv for kv in top)))
table = ("| property | tier of the last run | evaluations | distinct non-trivial | violations | largest monitor counters |\n"
         "|---|---|---|---|---|---|\n" + "\n".join(rows))
p = os.path.join(HERE, "DESIGN.md")
s = open(p).read()
if "<!-- COVERAGE-TABLE -->" in s:
    s = re.sub(r"<!-- COVERAGE-TABLE -->.*?<!-- /COVERAGE-TABLE -->",
               lambda _: "<!-- COVERAGE-TABLE -->\n" + table + "\n<!-- /COVERAGE-TABLE -->", s, flags=re.S)
    open(p, "w").write(s)
print(table[:600])
