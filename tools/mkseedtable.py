#!/usr/bin/env python3
"""Regenerate the table of seeded changes in DESIGN.md (between the SEEDED-TABLE markers) from
seeded/*/meta.json."""
import glob
import json
import os
import re

HERE = os.path.dirname(os.path.dirname(os.path.abspath(__file__)))
rows = []
for p in sorted(glob.glob(os.path.join(HERE, "seeded", "*", "meta.json"))):
    m = json.load(open(p))
    title = re.sub(r"^(C\d\d )?[Mm]utation \d+\s*[-:]\s*", "", m["title"]).replace("|", "/")
    caught = "; ".join("%s (`%s`)" % (c, "`, `".join(k[:3])) for c, k in sorted(m["caught_by"].items())) or "**missed**"
    note = m.get("strengthened", "")
    rows.append("| %s | %s | %s | %s |" % (m["id"], title, caught, note))
table = ("| id | seeded change | caught by (violation keys, quick tier, seed 1) | check strengthened to catch it |\n"
         "|---|---|---|---|\n" + "\n".join(rows))
p = os.path.join(HERE, "DESIGN.md")
s = open(p).read()
s = re.sub(r"<!-- SEEDED-TABLE -->.*?<!-- /SEEDED-TABLE -->",
           lambda _: "<!-- SEEDED-TABLE -->\n" + table + "\n<!-- /SEEDED-TABLE -->", s, flags=re.S)
open(p, "w").write(s)
print(len(rows), "rows")
